import DsdVerif.Lemmas.PySetObjExec
import DsdVerif.Props.PyIdent2

/-!
The OBJECT parts of `MacrostateS` and `ReactionS` (`dsdobjects/base_classes.py`) AS THEY ARE WRITTEN in the working tree —
`Gen/PySetObjects.lean` is regenerated from the source text, statement by statement, on every run (translator/pyident3.py):
`__init__` and the views `complexes`, `representative`, `canonical_form`, `name`, `__len__`, resp. `reactants`, `products`, `rtype`,
`name`, `canonical_form`.

What the object stores is a function of the argument VALUES at construction (`py_MacrostateS_init_eq`, `py_ReactionS_init_eq`); that
this is true of the CODE — nothing changes when the caller changes its list afterwards — rests on the translator's refusal of
`self._complexes = complexes` without `list(…)` (an alias of the caller's list has no such translation; `list(…)` / `sorted(…)` make a
new list), see translator/pyident3.py "no aliasing", and is sampled by the stream (the caller's list is changed before the views are read).
Composed with the translated `identifiers` (Props/PyIdent2.lean): the representative carries the name, and is the smallest member
when the name was derived; the stored reactant / product lists are the canonically sorted arguments (`C11.reaction_lists_sorted`).
-/
namespace Dsd.PySetObj
open Dsd Dsd.Gen Dsd.SetsFull

/-! ### `MacrostateS` -/

/-- **`MacrostateS.__init__` as written in the source, in closed form** -/
theorem py_MacrostateS_init_eq (ms : List (String × CKey)) (name : String) (canon : Option (List (String × CKey))) :
    py_MacrostateSObj_new ms name canon =
      match ms.find? (fun x => x.1 == name) with
      | none => .error (.fault "StopIteration")
      | some x => .ok { _complexes := ms, _representative := x, _canonical_form := canon } := macro_new_eq ms name canon

/-- the views, on any object: they read what `__init__` stored and leave the object as it is -/
theorem py_MacrostateS_views (s : MacrostateSObj.Self) :
    py_MacrostateS_complexes.exec s = (.ok s._complexes, s) ∧ py_MacrostateS_representative.exec s = (.ok s._representative, s) ∧
    py_MacrostateS_canonical_form.exec s = (.ok s._canonical_form, s) ∧ py_MacrostateS_name.exec s = (.ok s._representative.1, s) ∧
    py_MacrostateS___len__.exec s = (.ok s._complexes.length, s) := ⟨rfl, rfl, rfl, rfl, rfl⟩

/-- **set semantics / own copy**: the members the object hands out are the argument's members — the very value of the list at
    construction, hence a permutation of it, `len(m)` of them — and the representative is a member that carries the name -/
theorem py_macro_members (ms : List (String × CKey)) (name : String) (canon : Option (List (String × CKey))) (s : MacrostateSObj.Self)
    (h : py_MacrostateSObj_new ms name canon = .ok s) :
    (py_MacrostateS_complexes.exec s).1 = .ok ms ∧ s._complexes.Perm ms ∧ (py_MacrostateS___len__.exec s).1 = .ok ms.length ∧
    s._representative ∈ ms ∧ (py_MacrostateS_name.exec s).1 = .ok name ∧ s._canonical_form = canon := by
  rw [py_MacrostateS_init_eq] at h
  cases hf : ms.find? (fun x => x.1 == name) with
  | none => rw [hf] at h; cases h
  | some x =>
    rw [hf] at h
    injection h with h; subst h
    have hx := List.find?_some hf
    have hm := List.mem_of_find?_eq_some hf
    simp only [beq_iff_eq] at hx
    exact ⟨rfl, List.Perm.refl _, rfl, hm, by rw [← hx]; rfl, rfl⟩

/-- `__init__` raises StopIteration exactly when no member carries the name (then `_complexes` is already assigned: the exception
    does not undo it — but `Singleton.__call__` does not keep the object) -/
theorem py_macro_stop_iff (ms : List (String × CKey)) (name : String) (canon : Option (List (String × CKey))) :
    py_MacrostateSObj_new ms name canon = .error (.fault "StopIteration") ↔ name ∉ ms.map (·.1) := by
  rw [py_MacrostateS_init_eq]
  cases hf : ms.find? (fun x => x.1 == name) with
  | none =>
    simp only [true_iff]
    intro hm
    obtain ⟨y, hy, hn⟩ := List.mem_map.mp hm
    have := List.find?_eq_none.mp hf y hy
    simp [hn] at this
  | some x =>
    have hx := List.find?_some hf
    simp only [beq_iff_eq] at hx
    have hm : name ∈ ms.map (·.1) := List.mem_map.mpr ⟨x, List.mem_of_find?_eq_some hf, hx⟩
    constructor
    · intro e; cases e
    · intro hn; exact absurd hm hn

theorem find_of_nodup (ms : List (String × CKey)) (x : String × CKey) (hx : x ∈ ms) (hnd : (ms.map (·.1)).Nodup) :
    ms.find? (fun y => y.1 == x.1) = some x := by
  induction ms with
  | nil => cases hx
  | cons y ys ih =>
    simp only [List.map_cons, List.nodup_cons] at hnd
    rcases List.mem_cons.mp hx with rfl | hx'
    · simp
    · have hne : ¬ y.1 = x.1 := fun e => hnd.1 (e ▸ List.mem_map.mpr ⟨x, hx', rfl⟩)
      have hb : (y.1 == x.1) = false := by simpa using hne
      simp only [List.find?_cons, hb]
      exact ih hx' hnd.2

/-- **the object `MacrostateS(complexes, name)` builds** — the source's `identifiers` (Props/PyIdent2.lean) composed with the source's
    `__init__` as `Singleton.__call__` composes them: `__init__` never raises then; the canonical form is the member list sorted by
    canonical form; the name is the one given, or without one the name of the smallest member; and if the members' names are pairwise
    different the representative of an unnamed request IS the smallest member (no member's canonical form is smaller) -/
theorem py_macro_object (ms : List (String × CKey)) (name : Option String)
    (canon : Option (List (String × CKey))) (nm : String) (nargs : Option (Option (List (String × CKey))) × Option (Option String))
    (h : py_MacrostateS_identifiers (some ms) name = .ok (canon, some nm, nargs)) :
    ∃ s, py_MacrostateSObj_new ms nm canon = .ok s ∧ s._complexes = ms ∧ s._representative ∈ ms ∧ s._representative.1 = nm ∧
      s._canonical_form = some (sortBy (fun a b => ckeyLt a.2 b.2) ms) ∧
      (∀ n, name = some n → nm = n) ∧
      (name = none → (ms.map (·.1)).Nodup →
        (sortBy (fun a b => ckeyLt a.2 b.2) ms).head? = some s._representative ∧ ∀ y ∈ ms, ckeyLt y.2 s._representative.2 = false) := by
  obtain ⟨hc, _, hl, hnone, hsome⟩ := PyIdent2.py_macro_canon_spec ms name canon (some nm) nargs h
  obtain ⟨hperm, _, hsorted⟩ := hl _ hc
  have hmem : nm ∈ ms.map (·.1) := by
    cases name with
    | some n => obtain ⟨e, hm, _⟩ := hsome n rfl; injection e with e; rw [e]; exact hm
    | none =>
      obtain ⟨e, _⟩ := hnone rfl
      cases hh : (sortBy (fun a b => ckeyLt a.2 b.2) ms).head? with
      | none => rw [hh] at e; cases e
      | some m =>
        rw [hh] at e; injection e with e
        have : m ∈ sortBy (fun a b => ckeyLt a.2 b.2) ms := List.mem_of_head? hh
        rw [e]; exact List.mem_map.mpr ⟨m, hperm.mem_iff.mp this, rfl⟩
  rw [py_MacrostateS_init_eq]
  cases hf : ms.find? (fun x => x.1 == nm) with
  | none =>
    obtain ⟨y, hy, hn⟩ := List.mem_map.mp hmem
    have := List.find?_eq_none.mp hf y hy
    simp [hn] at this
  | some x =>
    have hx := List.find?_some hf
    simp only [beq_iff_eq] at hx
    refine ⟨_, rfl, rfl, List.mem_of_find?_eq_some hf, hx, hc, ?_, ?_⟩
    · intro n hn; obtain ⟨e, _, _⟩ := hsome n hn; injection e
    · intro hn hnd
      obtain ⟨e, _⟩ := hnone hn
      cases hh : (sortBy (fun a b => ckeyLt a.2 b.2) ms).head? with
      | none => rw [hh] at e; cases e
      | some m =>
        rw [hh] at e; injection e with e
        have hm : m ∈ ms := hperm.mem_iff.mp (List.mem_of_head? hh)
        have hxm : x = m := by
          have := find_of_nodup ms m hm hnd
          have e' : m.1 = nm := e.symm
          rw [e', hf] at this; injection this
        subst hxm
        refine ⟨rfl, fun y hy => ?_⟩
        have hy' : y ∈ sortBy (fun a b => ckeyLt a.2 b.2) ms := hperm.mem_iff.mpr hy
        cases hs : sortBy (fun a b => ckeyLt a.2 b.2) ms with
        | nil => rw [hs] at hy'; cases hy'
        | cons z zs =>
          rw [hs] at hh hy' hsorted
          injection hh with hh; subst hh
          rcases List.mem_cons.mp hy' with rfl | hz
          · exact C11.ckeyLt_strictTotal.irrefl _
          · exact (List.pairwise_cons.mp hsorted).1 y hz

/-! ### `ReactionS` -/

/-- **`ReactionS.__init__` as written in the source, in closed form** (members without empty macrostate forms) -/
theorem py_ReactionS_init_eq (rs ps : List (String × MemKey)) (rtype name : Option String) (canon : Option RKey)
    (hr : ∀ y ∈ rs, y.2 ≠ .m []) (hp : ∀ y ∈ ps, y.2 ≠ .m []) :
    py_ReactionSObj_new rs ps rtype name canon =
      match pySorted rs with
      | none => .error .assertion
      | some rs' =>
        match pySorted ps with
        | none => .error .assertion
        | some ps' =>
          match name with
          | none => .error .assertion
          | some _ =>
            match canon with
            | none => .error .assertion
            | some _ => .ok { _reactants := rs', _products := ps', _rtype := rtype, _const := none, _units := none,
                              _name := name, _canonical_form := canon } := reaction_new_eq rs ps rtype name canon hr hp

/-- the views, on any object -/
theorem py_ReactionS_views (s : ReactionSObj.Self) :
    py_ReactionS_reactants.exec s = (.ok s._reactants, s) ∧ py_ReactionS_products.exec s = (.ok s._products, s) ∧
    py_ReactionS_rtype.exec s = (.ok s._rtype, s) ∧ py_ReactionS_name.exec s = (.ok s._name, s) ∧
    py_ReactionS_canonical_form.exec s = (.ok s._canonical_form, s) := ⟨rfl, rfl, rfl, rfl, rfl⟩

/-- **the stored reactant / product lists are the canonically sorted arguments**: permutations of the arguments, sorted by
    canonical form, and their names are exactly the lists of the net-effect model (`C11.reaction_lists_sorted` transferred to the
    source's `__init__`) -/
theorem py_reaction_lists_sorted (r : Reg RKey) (fresh : Nat) (rs ps : List (String × MemKey)) (rtype name name' : Option String)
    (canon : Option RKey) (hr : ∀ y ∈ rs, y.2 ≠ .m []) (hp : ∀ y ∈ ps, y.2 ≠ .m []) (s : ReactionSObj.Self)
    (h : py_ReactionSObj_new rs ps rtype name canon = .ok s) :
    s._reactants = sortBy (fun a b => memLt a.2 b.2) rs ∧ s._products = sortBy (fun a b => memLt a.2 b.2) ps ∧
    s._reactants.Perm rs ∧ s._products.Perm ps ∧ s._reactants.length = rs.length ∧ s._products.length = ps.length ∧
    mixed rs = false ∧ mixed ps = false ∧
    (reactionRequest r fresh (some rs) (some ps) rtype name').2.2 = some (s._reactants.map (·.1), s._products.map (·.1)) ∧
    s._rtype = rtype ∧ s._name = name ∧ s._canonical_form = canon ∧ name.isSome ∧ canon.isSome := by
  rw [py_ReactionS_init_eq rs ps rtype name canon hr hp] at h
  unfold pySorted at h
  cases hm1 : mixed rs with
  | true => simp [hm1] at h
  | false =>
    cases hm2 : mixed ps with
    | true => simp [hm1, hm2] at h
    | false =>
      simp only [hm1, hm2, Bool.false_eq_true, if_false] at h
      cases name with
      | none => cases h
      | some n =>
        cases canon with
        | none => cases h
        | some c =>
          injection h with h; subst h
          obtain ⟨lr, lp, e, e1, e2, _, _⟩ := C11.reaction_lists_sorted r fresh rs ps rtype name'
          refine ⟨rfl, rfl, SortL.sortBy_perm _ rs, SortL.sortBy_perm _ ps, SortL.sortBy_length _ rs, SortL.sortBy_length _ ps, rfl, rfl,
            ?_, rfl, rfl, rfl, rfl, rfl⟩
          rw [e, e1, e2]

/-- **the object `ReactionS(reactants, products, rtype, name)` builds** — the source's `identifiers` composed with the source's
    `__init__`: `__init__` never raises then, and the canonical form the object carries is (forms of the stored reactants, forms of
    the stored products, type) -/
theorem py_reaction_object (rs ps : List (String × MemKey)) (rtype name : Option String)
    (hr : ∀ y ∈ rs, y.2 ≠ .m []) (hp : ∀ y ∈ ps, y.2 ≠ .m [])
    (res : Option RKey × Option String × Option RKey × Option (Option String))
    (h : py_ReactionS_identifiers (some rs) (some ps) rtype name = .ok res) :
    ∃ s, py_ReactionSObj_new rs ps rtype res.2.1 res.1 = .ok s ∧
      s._canonical_form = some (s._reactants.map (·.2), s._products.map (·.2), rtype) ∧ s._name = res.2.1 ∧
      (∀ n, name = some n → s._name = some n) ∧ s._reactants.Perm rs ∧ s._products.Perm ps := by
  have hr' : PyIdent2.NoEmptyMacro (some rs) := fun ms e y hy => by cases e; exact hr y hy
  have hp' : PyIdent2.NoEmptyMacro (some ps) := fun ms e y hy => by cases e; exact hp y hy
  obtain ⟨m1, m2, hc, _⟩ := PyIdent2.py_reaction_ok rs ps rtype name hr' hp' res h
  have hname : ∃ n, res.2.1 = some n ∧ (∀ n', name = some n' → n = n') := by
    rw [PyIdent2.py_ReactionS_identifiers_eq _ _ _ _ hr' hp'] at h
    unfold pySorted at h
    simp only [m1, m2, Bool.false_eq_true, if_false] at h
    cases name with
    | none => injection h with h; subst h; exact ⟨_, rfl, fun n' e => by cases e⟩
    | some n => injection h with h; subst h; exact ⟨n, rfl, fun n' e => by injection e⟩
  obtain ⟨n, hn, hn'⟩ := hname
  rw [py_ReactionS_init_eq rs ps rtype _ _ hr hp, hc, hn]
  unfold pySorted
  simp only [m1, m2, Bool.false_eq_true, if_false]
  exact ⟨_, rfl, rfl, rfl, fun n' e => by rw [hn' n' e], SortL.sortBy_perm _ rs, SortL.sortBy_perm _ ps⟩

/-- kernel-checked examples: the own copy and the representative; StopIteration; the sorted lists; the two assertions -/
theorem py_setobjects_examples :
    py_MacrostateSObj_new [("B", (["b"], ['.'])), ("A", (["a"], ['.']))] "A" none =
      .ok { _complexes := [("B", (["b"], ['.'])), ("A", (["a"], ['.']))], _representative := ("A", (["a"], ['.'])), _canonical_form := none } ∧
    py_MacrostateSObj_new [("B", (["b"], ['.']))] "A" none = .error (.fault "StopIteration") ∧
    (py_ReactionSObj_new [("B", .c (["b"], ['.'])), ("A", .c (["a"], ['.']))] [] (some "open") (some "r") (some ([], [], none))).map (·._reactants) =
      .ok [("A", .c (["a"], ['.'])), ("B", .c (["b"], ['.']))] ∧
    py_ReactionSObj_new [] [] none none (some ([], [], none)) = .error .assertion ∧
    py_ReactionSObj_new [] [] none (some "r") none = .error .assertion ∧
    py_ReactionSObj_new [("A", .c (["a"], ['.'])), ("M", .m [(["a"], ['.'])])] [] none (some "r") (some ([], [], none)) = .error .assertion :=
  ⟨rfl, rfl, rfl, rfl, rfl, rfl⟩

end Dsd.PySetObj

#print axioms Dsd.PySetObj.py_MacrostateS_init_eq
#print axioms Dsd.PySetObj.py_MacrostateS_views
#print axioms Dsd.PySetObj.py_macro_members
#print axioms Dsd.PySetObj.py_macro_stop_iff
#print axioms Dsd.PySetObj.py_macro_object
#print axioms Dsd.PySetObj.py_ReactionS_init_eq
#print axioms Dsd.PySetObj.py_ReactionS_views
#print axioms Dsd.PySetObj.py_reaction_lists_sorted
#print axioms Dsd.PySetObj.py_reaction_object
#print axioms Dsd.PySetObj.py_setobjects_examples
