/- C01 — singleton identity: theorems are in Props/C01Reg.lean. -/
import DsdVerif.Props.C01Reg
