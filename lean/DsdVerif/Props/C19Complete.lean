import DsdVerif.Props.C19Stream

namespace Dsd.C19
open Dsd.PP Dsd.Gen Dsd.PP.Ssw Dsd.PP.Tabs

/-! C19 (seesaw grammar), completion of the round-trip clause:

* every statement kind in EVERY form of its arguments — names: numbers or identifiers; wire targets and output
  list elements: numbers or `f`; OUTPUT values: wires or fluorophores; the first argument of `conc[…]`: a wire, a
  gate (both argument orders) or a threshold (both argument orders — `th[n, w[a,b]]` had no theorem before);
  concentrations: integers, decimals `v.w`, scientific numbers `v[.w]e[±]x`;
* with any number of blanks — and, after tab expansion, any blank/tab separators — at EVERY token boundary.

`Kind t0 toks ts`: the statement with the first token `t0` and the further tokens `toks` has the tree `.grp ts`.
From it: `Kind.text` (blank counts: an `Ssw.StmtText`, so `document_rt` covers it), `Kind.textT` (blank/tab
separators: an `Ssw.StmtTextT`, so `ssw_document_tabs_rt` covers it), `Kind.rt` / `Kind.rtT` (one-line documents).
The templates have `.sep false` at every boundary: NO boundary needs a separator. -/

structure Kind (t0 : List Char) (toks : List (List Char)) (ts : List Tree) : Prop where
  comp : ∃ b, StmtComp ssw_env t0 toks ts b ∧ b ≤ 3 * toks.length + 30
  head : ∃ c r, t0 = c :: r ∧ StartCh c
  notab0 : '\t' ∉ t0
  toksOK : ∀ t ∈ toks, TokOK t

/-- blank counts at every token boundary: `S` lists the further tokens, each with the number of blanks before it -/
theorem Kind.text {t0 : List Char} {toks : List (List Char)} {ts : List Tree} (h : Kind t0 toks ts) (S : Stream)
    (hS : S.map Prod.snd = toks) : StmtText (t0 ++ txt S []) (.grp ts) := by
  obtain ⟨b, hc, hb⟩ := h.comp
  obtain ⟨c, r, ht0, hc0⟩ := h.head
  exact stmtText_of_stream t0 c r ht0 hc0 toks ts b hc h.notab0 h.toksOK hb S hS

/-- blank/tab separators at every token boundary -/
theorem Kind.textT {t0 : List Char} {toks : List (List Char)} {ts : List Tree} (h : Kind t0 toks ts)
    (ws : List (List Char)) (hws : SepsOK (tmOf t0 toks) ws) : StmtTextT (renderW (tmOf t0 toks) ws) (.grp ts) := by
  obtain ⟨b, hc, hb⟩ := h.comp
  obtain ⟨c, r, ht0, hc0⟩ := h.head
  exact stmtTextT_of_stream t0 c r ht0 hc0 toks ts b hc h.notab0 h.toksOK hb ws hws

theorem Kind.rt {t0 : List Char} {toks : List (List Char)} {ts : List Tree} (h : Kind t0 toks ts) (S : Stream)
    (hS : S.map Prod.snd = toks) :
    parseDoc ssw_env ssw_grammar (String.ofList (t0 ++ txt S [] ++ ['\n'])) = some [.grp ts] :=
  stmt_rt _ _ (h.text S hS)

theorem Kind.rtT {t0 : List Char} {toks : List (List Char)} {ts : List Tree} (h : Kind t0 toks ts)
    (ws : List (List Char)) (hws : SepsOK (tmOf t0 toks) ws) :
    parseDoc ssw_env ssw_grammar (String.ofList (renderW (tmOf t0 toks) ws ++ ['\n'])) = some [.grp ts] :=
  stmtT_rt _ _ (h.textT ws hws)

/-! ### token lists are proper -/

theorem ok_cons {t : List Char} {ts : List (List Char)} (h : TokOK t) (hs : ∀ x ∈ ts, TokOK x) :
    ∀ x ∈ t :: ts, TokOK x := by
  intro x hx
  rcases List.mem_cons.mp hx with rfl | hx
  · exact h
  · exact hs x hx

theorem ok_append {as bs : List (List Char)} (ha : ∀ x ∈ as, TokOK x) (hb : ∀ x ∈ bs, TokOK x) :
    ∀ x ∈ as ++ bs, TokOK x := by
  intro x hx
  rcases List.mem_append.mp hx with hx | hx
  · exact ha x hx
  · exact hb x hx

theorem ok_nil : ∀ x ∈ ([] : List (List Char)), TokOK x := by intro x hx; cases hx

/-- a literal token -/
macro "lok" : term => `((⟨by decide, by decide⟩ : TokOK _))

theorem ok_gate {l : List Char} {TA TB : List (List Char)} (hl : TokOK l) (hA : ∀ x ∈ TA, TokOK x)
    (hB : ∀ x ∈ TB, TokOK x) : ∀ x ∈ gateToks l TA TB, TokOK x :=
  ok_cons hl (ok_cons lok (ok_append (ok_append hA (ok_cons lok hB)) (ok_cons lok ok_nil)))

theorem ok_concArg {TX : List (List Char)} {tx : Tree} (h : ConcArg TX tx) : ∀ x ∈ TX, TokOK x := by
  cases h with
  | wire a b ha hb => exact tokOK_wire ha hb
  | gateO a b n ha hb hn => exact ok_gate lok (tokOK_wire ha hb) (ok_cons (tokOK_dig hn) ok_nil)
  | gateI a b n ha hb hn => exact ok_gate lok (ok_cons (tokOK_dig hn) ok_nil) (tokOK_wire ha hb)
  | thO a b n ha hb hn => exact ok_gate lok (tokOK_wire ha hb) (ok_cons (tokOK_dig hn) ok_nil)
  | thI a b n ha hb hn => exact ok_gate lok (ok_cons (tokOK_dig hn) ok_nil) (tokOK_wire ha hb)

theorem length_concArg {TX : List (List Char)} {tx : Tree} (h : ConcArg TX tx) : 6 ≤ TX.length := by
  cases h <;> simp [gateToks, wireToks]

theorem ok_outVal {TV : List (List Char)} {tv : Tree} (h : OutVal TV tv) : ∀ x ∈ TV, TokOK x := by
  cases h with
  | fluor f hf => exact ok_cons lok (ok_cons lok (ok_cons (tokOK_dig hf) (ok_cons lok ok_nil)))
  | wire a b ha hb => exact tokOK_wire ha hb

theorem sc (c : Char) (h1 : isWs c = false) (h2 : c ≠ '#') (h3 : c ≠ '\n') : StartCh c := ⟨h1, h2, h3⟩

/-! ### the statement kinds -/

/-- `INPUT ( n ) = w [ a , b ]`: `n` a number or an identifier, `b` a number or `f` -/
theorem kind_input (n a b : List Char) (hn : NameTok n) (ha : Digits a) (hb : NumOrF b) :
    Kind ['I', 'N', 'P', 'U', 'T'] (inputToks n a b)
      [.tok "INPUT", .grp [tokOf n], .grp [.tok "w", .grp [tokOf a, tokOf b]]] where
  comp := ⟨30, input_stmt n a b hn ha hb, by simp [inputToks, wireToks]⟩
  head := ⟨_, _, rfl, sc _ (by decide) (by decide) (by decide)⟩
  notab0 := by decide
  toksOK := ok_cons lok (ok_cons (tokOK_name hn) (ok_cons lok (ok_cons lok (tokOK_wire ha hb))))

/-- `OUTPUT ( n ) = V`: `n` a number or an identifier, `V` a wire `w [ a , b ]` or a fluorophore `Fluor [ f ]` -/
theorem kind_output (n : List Char) (hn : NameTok n) {TV : List (List Char)} {tv : Tree} (hV : OutVal TV tv) :
    Kind ['O', 'U', 'T', 'P', 'U', 'T'] (outputToks n TV) [.tok "OUTPUT", .grp [tokOf n], tv] where
  comp := ⟨40, output_stmt n hn hV, by simp [outputToks]; omega⟩
  head := ⟨_, _, rfl, sc _ (by decide) (by decide) (by decide)⟩
  notab0 := by decide
  toksOK := ok_cons lok (ok_cons (tokOK_name hn) (ok_cons lok (ok_cons lok (ok_outVal hV))))

/-- `seesaw [ n , { i0 , i… } , { o0 , o… } ]`: the outputs are numbers or `f` -/
theorem kind_seesaw (n i0 o0 : List Char) (is os : List (List Char)) (hn : Digits n) (hi0 : Digits i0)
    (ho0 : NumOrF o0) (his : ∀ y ∈ is, Digits y) (hos : ∀ y ∈ os, NumOrF y) :
    Kind ['s', 'e', 'e', 's', 'a', 'w'] (seesawToks n i0 is o0 os)
      [.tok "seesaw", .grp [tokOf n, .grp ((i0 :: is).map tokOf), .grp ((o0 :: os).map tokOf)]] where
  comp := ⟨is.length + os.length + 50, seesaw_stmt n i0 o0 is os hn hi0 ho0 his hos, by
    have : (seesawToks n i0 is o0 os).length = 2 * is.length + 2 * os.length + 11 := by
      simp only [seesawToks, List.length_cons, List.length_append, length_braceToks, List.length_nil]; omega
    rw [this]; omega⟩
  head := ⟨_, _, rfl, sc _ (by decide) (by decide) (by decide)⟩
  notab0 := by decide
  toksOK := ok_cons lok (ok_append (ok_cons (tokOK_dig hn) (ok_cons lok
    (ok_append (tokOK_braces (fun _ h => tokOK_dig h) i0 is hi0 his)
      (ok_cons lok (tokOK_braces (fun _ h => tokOK_numOrF h) o0 os ho0 hos))))) (ok_cons lok ok_nil))

/-- `conc [ X , v * c ]`: `X` any of the five argument forms, `v` an integer, a decimal or a scientific number -/
theorem kind_conc {TX : List (List Char)} {tx : Tree} (hX : ConcArg TX tx) (v : List Char) (hv : GorfTok v) :
    Kind ['c', 'o', 'n', 'c'] (concTail TX v) [.tok "conc", tx, tokOf v] where
  comp := ⟨60, conc_stmt hX v hv, by
    have hl := length_concArg hX
    have : (concTail TX v).length = TX.length + 6 := by
      simp only [concTail, concToks, List.length_cons, List.length_append, List.length_nil]
    rw [this]; omega⟩
  head := ⟨_, _, rfl, sc _ (by decide) (by decide) (by decide)⟩
  notab0 := by decide
  toksOK := ok_cons lok (ok_append (ok_concArg hX) (ok_cons lok
    (ok_append (ok_cons (tokOK_gorf hv) (ok_cons lok (ok_cons lok ok_nil))) (ok_cons lok ok_nil))))

/-- `reporter [ a , b ]` -/
theorem kind_reporter (a b : List Char) (ha : Digits a) (hb : Digits b) :
    Kind ['r', 'e', 'p', 'o', 'r', 't', 'e', 'r'] (reporterToks a b) [.tok "reporter", .grp [tokOf a, tokOf b]] where
  comp := ⟨30, reporter_stmt a b ha hb, by simp [reporterToks]⟩
  head := ⟨_, _, rfl, sc _ (by decide) (by decide) (by decide)⟩
  notab0 := by decide
  toksOK := ok_cons lok (ok_append (ok_cons (tokOK_dig ha) (ok_cons lok (ok_cons (tokOK_dig hb) ok_nil)))
    (ok_cons lok ok_nil))

/-- `inputfanout [ a , b , { x0 , x… } ]` -/
theorem kind_inputfanout (a b x0 : List Char) (xs : List (List Char)) (ha : Digits a) (hb : Digits b)
    (h0 : Digits x0) (hxs : ∀ y ∈ xs, Digits y) :
    Kind ['i', 'n', 'p', 'u', 't', 'f', 'a', 'n', 'o', 'u', 't'] (fanoutToks a b x0 xs)
      [.tok "inputfanout", .grp [tokOf a, tokOf b, .grp ((x0 :: xs).map tokOf)]] where
  comp := ⟨xs.length + 55, fanout_stmt a b x0 xs ha hb h0 hxs, by
    have : (fanoutToks a b x0 xs).length = 2 * xs.length + 9 := by
      simp only [fanoutToks, List.length_cons, List.length_append, length_braceToks, List.length_nil]
    rw [this]; omega⟩
  head := ⟨_, _, rfl, sc _ (by decide) (by decide) (by decide)⟩
  notab0 := by decide
  toksOK := ok_cons lok (ok_append (ok_cons (tokOK_dig ha) (ok_cons lok (ok_cons (tokOK_dig hb) (ok_cons lok
    (tokOK_braces (fun _ h => tokOK_dig h) x0 xs h0 hxs))))) (ok_cons lok ok_nil))

theorem ok_twoList (a b x0 y0 : List Char) (xs ys : List (List Char)) (ha : Digits a) (hb : Digits b)
    (hx0 : Digits x0) (hy0 : Digits y0) (hxs : ∀ y ∈ xs, Digits y) (hys : ∀ y ∈ ys, Digits y) :
    ∀ t ∈ twoListToks a b x0 xs y0 ys, TokOK t :=
  ok_cons lok (ok_append (ok_cons (tokOK_dig ha) (ok_cons lok (ok_cons (tokOK_dig hb) (ok_cons lok
    (ok_append (tokOK_braces (fun _ h => tokOK_dig h) x0 xs hx0 hxs)
      (ok_cons lok (tokOK_braces (fun _ h => tokOK_dig h) y0 ys hy0 hys))))))) (ok_cons lok ok_nil))

theorem length_twoList (a b x0 y0 : List Char) (xs ys : List (List Char)) :
    (twoListToks a b x0 xs y0 ys).length = 2 * xs.length + 2 * ys.length + 13 := by
  simp only [twoListToks, List.length_cons, List.length_append, length_braceToks, List.length_nil]; omega

/-- `seesawOR [ a , b , { x0 , x… } , { y0 , y… } ]` -/
theorem kind_seesawOR (a b x0 y0 : List Char) (xs ys : List (List Char)) (ha : Digits a) (hb : Digits b)
    (hx0 : Digits x0) (hy0 : Digits y0) (hxs : ∀ y ∈ xs, Digits y) (hys : ∀ y ∈ ys, Digits y) :
    Kind ['s', 'e', 'e', 's', 'a', 'w', 'O', 'R'] (twoListToks a b x0 xs y0 ys)
      [.tok "seesawOR", .grp [tokOf a, tokOf b, .grp ((x0 :: xs).map tokOf), .grp ((y0 :: ys).map tokOf)]] where
  comp := ⟨xs.length + ys.length + 60, seesawOR_stmt a b x0 y0 xs ys ha hb hx0 hy0 hxs hys, by
    rw [length_twoList]; omega⟩
  head := ⟨_, _, rfl, sc _ (by decide) (by decide) (by decide)⟩
  notab0 := by decide
  toksOK := ok_twoList a b x0 y0 xs ys ha hb hx0 hy0 hxs hys

/-- `seesawAND [ a , b , { x0 , x… } , { y0 , y… } ]` -/
theorem kind_seesawAND (a b x0 y0 : List Char) (xs ys : List (List Char)) (ha : Digits a) (hb : Digits b)
    (hx0 : Digits x0) (hy0 : Digits y0) (hxs : ∀ y ∈ xs, Digits y) (hys : ∀ y ∈ ys, Digits y) :
    Kind ['s', 'e', 'e', 's', 'a', 'w', 'A', 'N', 'D'] (twoListToks a b x0 xs y0 ys)
      [.tok "seesawAND", .grp [tokOf a, tokOf b, .grp ((x0 :: xs).map tokOf), .grp ((y0 :: ys).map tokOf)]] where
  comp := ⟨xs.length + ys.length + 60, seesawAND_stmt a b x0 y0 xs ys ha hb hx0 hy0 hxs hys, by
    rw [length_twoList]; omega⟩
  head := ⟨_, _, rfl, sc _ (by decide) (by decide) (by decide)⟩
  notab0 := by decide
  toksOK := ok_twoList a b x0 y0 xs ys ha hb hx0 hy0 hxs hys

end Dsd.C19
