import DsdVerif.Model.Reader
import DsdVerif.Props.C05World

namespace Dsd.C05
open Dsd Dsd.World

/-! C05 on the reader model: everything a read document built is released once the result dictionary is dropped. -/

theorem iter_expand_nil (w : World) (n : Nat) : iter w.expand n [] = [] := by
  induction n with
  | zero => rfl
  | succ n ih =>
    show iter w.expand n (w.expand []) = []
    have : w.expand [] = [] := by simp [expand]
    rw [this]; exact ih

/-- without a user handle nothing is reachable -/
theorem reachable_no_handles (w : World) (h : w.held = []) : w.reachable = [] := by
  unfold reachable
  rw [h]
  exact iter_expand_nil w _

theorem dropDead_nil {κ} [DecidableEq κ] (cs : List (ClassReg κ)) :
    ∀ cr ∈ dropDead cs [], cr.reg.objs = [] := by
  intro cr hcr
  unfold dropDead at hcr
  obtain ⟨c0, _, rfl⟩ := List.mem_map.mp hcr
  simp

/-- **dropping every handle releases everything**: after the last user handle is gone, collection leaves no node,
    no registry entry of any kind or class, and no object state -/
theorem collect_no_handles (w : World) (h : w.held = []) :
    w.collect.nodes = [] ∧ w.collect.cstate = [] ∧
    (∀ cr ∈ w.collect.doms, cr.reg.objs = []) ∧ (∀ cr ∈ w.collect.strands, cr.reg.objs = []) ∧
    (∀ cr ∈ w.collect.cplxs, cr.reg.objs = []) ∧ (∀ cr ∈ w.collect.macros, cr.reg.objs = []) ∧
    (∀ cr ∈ w.collect.rxns, cr.reg.objs = []) := by
  have hr := reachable_no_handles w h
  unfold collect
  simp only [hr]
  refine ⟨by simp, by simp, dropDead_nil _, dropDead_nil _, dropDead_nil _, dropDead_nil _, dropDead_nil _⟩

/-- **a read system is released completely once its dictionary is dropped** (and nothing else was held): whatever
    document was read — successfully or not — into whatever state, forgetting the result leaves an empty world -/
theorem read_then_drop_releases (s : RState) (sl : Slots) (ign : List String) (lines : List PP.Tree) (d : RDict)
    (s' : RState) (r : Except RErr RDict) (_h : s.readDoc sl ign [] lines d = (s', r)) :
    let w' := (s'.keepOnly [] {}).w
    w'.nodes = [] ∧ w'.cstate = [] ∧ (∀ cr ∈ w'.doms, cr.reg.objs = []) ∧ (∀ cr ∈ w'.strands, cr.reg.objs = []) ∧
    (∀ cr ∈ w'.cplxs, cr.reg.objs = []) ∧ (∀ cr ∈ w'.macros, cr.reg.objs = []) ∧ (∀ cr ∈ w'.rxns, cr.reg.objs = []) := by
  intro w'
  have : w' = ({ s'.w with held := s'.w.held.filter (fun h => ([] : List Nat).contains h) }).collect := by
    simp [w', RState.keepOnly]
  rw [this]
  exact collect_no_handles _ (by simp)

/-- non-vacuity: a three-line document builds four domains and a strand; dropping the dictionary releases them -/
def doc3 : List PP.Tree := [.grp [.tok "dl-domain", .tok "a", .tok "short"],
  .grp [.tok "dl-domain", .tok "b", .tok "long"], .grp [.tok "composite-domain", .tok "s", .grp [.tok "a", .tok "b*"]]]

example : ((({} : RState).readDoc {} [] [] doc3 {}).1.w.nodes.length,
           ((({} : RState).readDoc {} [] [] doc3 {}).1.keepOnly [] {}).w.nodes.length) = (5, 0) := by rfl

end Dsd.C05
