/- C13 — PIL grammar round trips: theorems are in Props/C13Pil.lean and Props/C13Kernel.lean. -/
import DsdVerif.Props.C13Pil
import DsdVerif.Props.C13Kernel
