/- C13 — PIL grammar round trips: theorems are in Props/C13Pil.lean, C13Kernel.lean and C13More.lean; documents of any
   number of statements in Props/C13Doc.lean. -/
import DsdVerif.Props.C13Pil
import DsdVerif.Props.C13Kernel
import DsdVerif.Props.C13More
import DsdVerif.Props.C13Doc
import DsdVerif.Props.C13Layout
import DsdVerif.Props.C13Tabs
import DsdVerif.Props.C13Sound
import DsdVerif.Props.C13Gaps
import DsdVerif.Props.C13GapsRx
import DsdVerif.Props.C13GapsCplx
import DsdVerif.Props.C13GapsKernel
import DsdVerif.Props.C13Reject
import DsdVerif.Props.C13RejectKernel
import DsdVerif.Props.C13RejectEx
import DsdVerif.Props.C13SoundSig
import DsdVerif.Props.C13Indent
