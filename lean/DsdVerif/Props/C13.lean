/- C13 — PIL grammar round trips: theorems are in Props/C13Pil.lean. -/
import DsdVerif.Props.C13Pil
