import DsdVerif.Props.C19Forms

namespace Dsd.C19
open Dsd.PP Dsd.Gen Dsd.PP.Ssw Dsd.PP.Tabs

/-! C19: closed instances (non-vacuity) of Props/C19Forms.lean, and the gaps the seesaw grammar DOES restrict.
All token boundaries allow separators — also `w [`, `Fluor [`, `conc [`, `INPUT (`, `* c` —; no blank may stand
INSIDE a token: a keyword, a number — in particular not around `.`, `e` and the sign of a scientific number
(`Combine` in the grammar) —, an identifier. -/

theorem dg (c : Char) (hc : c ∈ pp_nums) : Digits [c] := ⟨by simp, by simpa using hc⟩

/-- `1.5e-3` -/
theorem gorf_example : GorfTok ['1', '.', '5', 'e', '-', '3'] :=
  gorf_dec_sci_minus ['1'] ['5'] ['3'] (dg _ (by decide)) (dg _ (by decide)) (dg _ (by decide))

/-- a threshold with the number first and a scientific concentration (text format of `conc_thI_gen_rt`) -/
example :
    parseDoc ssw_env ssw_grammar "conc[th[3, w[1, f]], 1.5e-3*c]\n" =
    some [.grp [.tok "conc", .grp [.tok "th", .grp [.tok "3", .grp [.tok "w", .grp [.tok "1", .tok "f"]]]],
      .tok "1.5e-3"]] :=
  parse_of_text _ _ _ _ _
    (conc_thI_gen_rt ['1'] ['f'] ['3'] _ (dg _ (by decide)) (Or.inr rfl) (dg _ (by decide)) gorf_example 1 1 1)
    (by decide +kernel)

/-- an identifier as OUTPUT name; `f` in the output list of a seesaw gate -/
example :
    parseDoc ssw_env ssw_grammar "OUTPUT(out_1) = Fluor[7]\n" =
    some [.grp [.tok "OUTPUT", .grp [.tok "out_1"], .grp [.tok "Fluor", .tok "7"]]] :=
  parse_of_text _ _ _ _ _
    (output_fluor_gen_rt ['o', 'u', 't', '_', '1'] ['7']
      (Or.inr ⟨'o', ['u', 't', '_', '1'], rfl, by decide, by decide⟩) (dg _ (by decide)) 1 1)
    (by decide +kernel)

example :
    parseDoc ssw_env ssw_grammar "seesaw[5, {1, 2}, {f, 3}]\n" =
    some [.grp [.tok "seesaw", .grp [.tok "5", .grp [.tok "1", .tok "2"], .grp [.tok "f", .tok "3"]]]] :=
  parse_of_text _ _ _ _ _
    (seesaw_f_rt ['5'] [['1'], ['2']] [['f'], ['3']] (dg _ (by decide))
      ⟨by simp, by intro x hx; simp at hx; rcases hx with rfl | rfl <;> exact dg _ (by decide)⟩
      ⟨by simp, by
        intro x hx; simp at hx
        rcases hx with rfl | rfl
        · exact Or.inr rfl
        · exact Or.inl (dg _ (by decide))⟩)
    (by decide +kernel)

theorem isSep_nil : IsSep [] := by intro c hc; cases hc
theorem isSep_blank : IsSep [' '] := by intro c hc; simp at hc; exact Or.inl hc

/-- **a document with blanks and a TAB at token boundaries of all kinds**, through the layout theorems
    (`conc_layout`, `output_layout`, `seesaw_layout`) and `ssw_document_tabs_rt` -/
example :
    parseDoc ssw_env ssw_grammar
      "conc[th[3,\tw[1 , 2]] , 1.5e-3 * c]\nOUTPUT( out_1 )=Fluor [ 7 ]\nseesaw [5,{1,2},{f , 3}]\n" =
    some [.grp [.tok "conc", .grp [.tok "th", .grp [.tok "3", .grp [.tok "w", .grp [.tok "1", .tok "2"]]]],
            .tok "1.5e-3"],
          .grp [.tok "OUTPUT", .grp [.tok "out_1"], .grp [.tok "Fluor", .tok "7"]],
          .grp [.tok "seesaw", .grp [.tok "5", .grp [.tok "1", .tok "2"], .grp [.tok "f", .tok "3"]]]] := by
  have d1 := dg '1' (by decide); have d2 := dg '2' (by decide); have d3 := dg '3' (by decide)
  have d5 := dg '5' (by decide); have d7 := dg '7' (by decide)
  have hseps : ∀ ws : List (List Char), (∀ w ∈ ws, w = [] ∨ w = [' '] ∨ w = ['\t']) → ∀ w ∈ ws, IsSep w := by
    intro ws h w hw
    rcases h w hw with rfl | rfl | rfl
    · exact isSep_nil
    · exact isSep_blank
    · exact isSep_tab
  have s1 := conc_layout (ConcArg.thI ['1'] ['2'] ['3'] d1 (Or.inl d2) d3) _ gorf_example
    [[], [], [], [], [], ['\t'], [], [], [' '], [' '], [], [], [' '], [' '], [' '], [' '], []] rfl
    (hseps _ (by decide))
  have s2 := output_layout ['o', 'u', 't', '_', '1'] (Or.inr ⟨'o', ['u', 't', '_', '1'], rfl, by decide, by decide⟩)
    (OutVal.fluor ['7'] d7) [[], [' '], [' '], [], [], [' '], [' '], [' ']] rfl (hseps _ (by decide))
  have s3 := seesaw_layout ['5'] ['1'] ['f'] [['2']] [['3']] d5 d1 (Or.inr rfl)
    (by intro y hy; simp at hy; subst hy; exact d2) (by intro y hy; simp at hy; subst hy; exact Or.inl d3)
    [[' '], [], [], [], [], [], [], [], [], [], [], [' '], [' '], [], []] rfl (hseps _ (by decide))
  have none_ok : ∀ c : List Char, (none : Option (List Char)) = some c → '\n' ∉ c ∧ '\t' ∉ c := by
    intro c hc; cases hc
  have hb : BLine.OK ⟨[], none⟩ := bline_ok _ _ (by decide) none_ok
  have h := ssw_document_tabs_rt []
    [(_, _, ⟨⟨[], none⟩, []⟩), (_, _, ⟨⟨[], none⟩, []⟩), (_, _, ⟨⟨[], none⟩, []⟩)]
    ⟨[], none⟩ (by simp) (by simp)
    (by
      intro x hx
      simp only [List.mem_cons, List.not_mem_nil, or_false] at hx
      rcases hx with rfl | rfl | rfl
      · exact ⟨s1, hb, by simp⟩
      · exact ⟨s2, hb, by simp⟩
      · exact ⟨s3, hb, by simp⟩)
    hb
  exact parse_of_text _ _ _ _ _ h (by decide +kernel)

/-- the same document, checked directly against the interpreter -/
example :
    (match parseDoc ssw_env ssw_grammar
        "conc[th[3,\tw[1 , 2]] , 1.5e-3 * c]\nOUTPUT( out_1 )=Fluor [ 7 ]\nseesaw [5,{1,2},{f , 3}]\n" with
     | some [.grp [.tok "conc", _, .tok "1.5e-3"], .grp [.tok "OUTPUT", _, _], .grp [.tok "seesaw", _]] => true
     | _ => false) = true := by decide +kernel

/-! ### the gaps the grammar restricts (all kernel-checked against the interpreter) -/

/-- separators are fine between `conc` and `[`, `w` and `[`, around `*` — -/
example : (parseDoc ssw_env ssw_grammar "conc [ w [ 1 , 2 ] , 1.5 * c ]\n").isSome = true := by decide +kernel
/-- — and between `Fluor` and `[`, `OUTPUT` and `(` -/
example : (parseDoc ssw_env ssw_grammar "OUTPUT ( 1 ) = Fluor [ 2 ]\n").isSome = true := by decide +kernel

/-- no blank inside a number: before / after the decimal point -/
example : parseDoc ssw_env ssw_grammar "conc[w[1,2], 1 .5*c]\n" = none := by decide +kernel
example : parseDoc ssw_env ssw_grammar "conc[w[1,2], 1. 5*c]\n" = none := by decide +kernel
/-- … before / after `e`, after the sign -/
example : parseDoc ssw_env ssw_grammar "conc[w[1,2], 1.5 e3*c]\n" = none := by decide +kernel
example : parseDoc ssw_env ssw_grammar "conc[w[1,2], 1.5e 3*c]\n" = none := by decide +kernel
example : parseDoc ssw_env ssw_grammar "conc[w[1,2], 1.5e- 3*c]\n" = none := by decide +kernel
/-- … between digits -/
example : parseDoc ssw_env ssw_grammar "conc[w[1,2], 1 2*c]\n" = none := by decide +kernel
/-- a decimal point needs digits on both sides -/
example : parseDoc ssw_env ssw_grammar "conc[w[1,2], 1.e5*c]\n" = none := by decide +kernel
/-- no blank inside a keyword -/
example : parseDoc ssw_env ssw_grammar "IN PUT(1) = w[1,2]\n" = none := by decide +kernel
example : parseDoc ssw_env ssw_grammar "seesaw OR[1, 2, {3}, {4}]\n" = none := by decide +kernel

/-- `f` is an element of the OUTPUT list of `seesaw` only: not of its input list, not of the lists of
    `seesawOR` / `seesawAND` (both are input lists in the grammar) -/
example : parseDoc ssw_env ssw_grammar "seesaw[5, {f}, {1}]\n" = none := by decide +kernel
example : parseDoc ssw_env ssw_grammar "seesawOR[1, 2, {3, f}, {4}]\n" = none := by decide +kernel
example : parseDoc ssw_env ssw_grammar "seesawAND[1, 2, {3}, {f}]\n" = none := by decide +kernel

end Dsd.C19
