/-
`DomainS.identifiers` AS WRITTEN against the model `DomFull.identifiers` (Model/DomainFull.lean), for a parameter `request` of the
translation that is related to the parameter `nested` of the model (`PyDomainEq.Related`): the class record afterwards represents the
registry afterwards (`PyDomainEq.RepX`, exact) and the results correspond (`toIdents`).  Proved per branch of the method; see the list
of `#print axioms` below for what is done.
-/
import DsdVerif.Lemmas.PyDomainEqIdent
import DsdVerif.Lemmas.PyDomainEqIdent2

namespace Dsd.PyDomain2
open Dsd Dsd.Gen Dsd.PyDomainEq

/-- (a) the empty class represents the empty registry -/
theorem rep_init : RepX {} {} := repX_init

/-- (b) the death of an object: `Py.Dom.drop` is `Reg.drop` -/
theorem py_drop_eq (s : Py.Dom.Cls) (r : Reg DKey) (h : RepX s r) (id : Nat) :
    RepX ((Py.Dom.drop id).exec s).2 (r.drop id) := (repX_drop s r h id).2

/-- `len(<temporary>)` with the death of the temporary is the model's `lenAndRelease` -/
theorem py_lenTemp_eq (s : Py.Dom.Cls) (r : Reg DKey) (h : RepX s r) (tmp id : Nat) (created : Bool) (hc : created = true ↔ id = tmp) :
    ∃ s', RepX s' (DomFull.lenAndRelease r id created).2 ∧
      (Py.Dom.lenTemp tmp id).exec s =
        (match (DomFull.lenAndRelease r id created).1 with | some l => .ok l | none => .error (.fault "TypeError"), s') :=
  lenTemp_eq s r h tmp id created hc

/-- (c), branch `elif length is not None and name[-1] == '*'`: a starred name with a length -/
theorem py_identifiers_starred_length (request : Py.Dom.Req → Py.Dom.M Nat) (nested : Reg DKey → DomReq → Reg DKey × Out) (tmp : Nat)
    (hrel : Related request nested tmp) (s : Py.Dom.Cls) (r : Reg DKey) (h : RepX s r) (cfg : DomCfg)
    (n : String) (hne : n ≠ "") (hst : isStarred n = true) (l : Nat) (pfx : Option String) :
    ∃ s', RepX s' (DomFull.identifiers nested cfg r { name := some n, length := some l, prefix_ := pfx }).1 ∧
      (py_DomainS_identifiers request tmp cfg.cutoff cfg.shortLen cfg.longLen cfg.prefix_ (some n) (some l) pfx none).exec s =
        (toIdents (DomFull.identifiers nested cfg r { name := some n, length := some l, prefix_ := pfx }).2, s') :=
  identifiers_starred_length request nested tmp hrel s r h cfg n hne hst l pfx

/-- (c), branch "unstarred name only": no nested request is made, whatever `request` / `nested` are; nothing changes, canon is None -/
theorem py_identifiers_plain_name (request : Py.Dom.Req → Py.Dom.M Nat) (nested : Reg DKey → DomReq → Reg DKey × Out) (tmp : Nat)
    (s : Py.Dom.Cls) (r : Reg DKey) (cfg : DomCfg) (n : String) (hne : n ≠ "") (hst : isStarred n = false) (pfx : Option String) :
    (DomFull.identifiers nested cfg r { name := some n, prefix_ := pfx }).1 = r ∧
    (py_DomainS_identifiers request tmp cfg.cutoff cfg.shortLen cfg.longLen cfg.prefix_ (some n) none pfx none).exec s =
      (toIdents (DomFull.identifiers nested cfg r { name := some n, prefix_ := pfx }).2, s) :=
  identifiers_plain_name request nested tmp s r cfg n hne hst pfx

#print axioms py_identifiers_plain_name
#print axioms rep_init
#print axioms py_drop_eq
#print axioms py_lenTemp_eq
#print axioms py_identifiers_starred_length

end Dsd.PyDomain2
