import DsdVerif.Model.World
import DsdVerif.Lemmas.Order
import DsdVerif.Lemmas.Sort
import DsdVerif.Lemmas.RegCall

namespace Dsd.C11
open Dsd

/-! Order facts (C10): all comparison operators of the library are derived from these strict orders. -/

/-- a strict total order given as a Boolean function -/
structure StrictTotal {α} (lt : α → α → Bool) : Prop where
  irrefl : ∀ a, lt a a = false
  trans : ∀ a b c, lt a b = true → lt b c = true → lt a c = true
  total : ∀ a b, a = b ∨ lt a b = true ∨ lt b a = true

theorem lexLt_strictTotal {α} [DecidableEq α] (lt : α → α → Bool) (h : StrictTotal lt) : StrictTotal (lexLt lt) :=
  ⟨Ord.lexLt_irrefl lt, Ord.lexLt_trans lt h.irrefl h.trans, Ord.lexLt_total lt h.total⟩
theorem strLt_strictTotal : StrictTotal strLt := ⟨Ord.strLt_irrefl, Ord.strLt_trans, Ord.strLt_total⟩
theorem ckeyLt_strictTotal : StrictTotal ckeyLt := ⟨Ord.ckeyLt_irrefl, Ord.ckeyLt_trans, Ord.ckeyLt_total⟩
theorem mkeyLt_strictTotal : StrictTotal mkeyLt := ⟨Ord.mkeyLt_irrefl, Ord.mkeyLt_trans, Ord.mkeyLt_total⟩
theorem memLt_strictTotal : StrictTotal memLt := ⟨Ord.memLt_irrefl, Ord.memLt_trans, Ord.memLt_total⟩

/-- `<, <=` derived from a strict total order form a total preorder in which equal objects are equivalent;
    `!=` is the negation of `==` by definition -/
theorem le_total {α} [DecidableEq α] (lt : α → α → Bool) (h : StrictTotal lt) (a b : α) :
    leOf lt a b = true ∨ leOf lt b a = true := by
  simp only [leOf, Bool.or_eq_true, decide_eq_true_eq]
  rcases h.total a b with h1 | h1 | h1
  · exact Or.inl (Or.inl h1)
  · exact Or.inl (Or.inr h1)
  · exact Or.inr (Or.inr h1)
theorem le_trans {α} [DecidableEq α] (lt : α → α → Bool) (h : StrictTotal lt) (a b c : α) :
    leOf lt a b = true → leOf lt b c = true → leOf lt a c = true := by
  simp only [leOf, Bool.or_eq_true, decide_eq_true_eq]
  rintro (rfl | h1) (rfl | h2)
  · exact Or.inl rfl
  · exact Or.inr h2
  · exact Or.inr h1
  · exact Or.inr (h.trans _ _ _ h1 h2)
theorem lt_iff_le_not_le {α} [DecidableEq α] (lt : α → α → Bool) (h : StrictTotal lt) (a b : α) :
    lt a b = true ↔ (leOf lt a b = true ∧ leOf lt b a = false) := by
  simp only [leOf, Bool.or_eq_true, Bool.or_eq_false_iff, decide_eq_true_eq, decide_eq_false_iff_not]
  constructor
  · intro hab
    refine ⟨Or.inr hab, ?_, ?_⟩
    · rintro rfl
      rw [h.irrefl] at hab; cases hab
    · cases hba : lt b a with
      | false => rfl
      | true =>
        have := h.trans _ _ _ hab hba
        rw [h.irrefl] at this; cases this
  · rintro ⟨rfl | hab, hne, _⟩
    · exact absurd rfl hne
    · exact hab
theorem le_antisymm {α} [DecidableEq α] (lt : α → α → Bool) (h : StrictTotal lt) (a b : α) :
    leOf lt a b = true → leOf lt b a = true → a = b := by
  simp only [leOf, Bool.or_eq_true, decide_eq_true_eq]
  rintro (rfl | h1) (h2 | h2)
  · rfl
  · rfl
  · exact h2.symm
  · have := h.trans _ _ _ h1 h2
    rw [h.irrefl] at this; cases this

/-- domains: equal objects (same name and length) have equal hash keys and are equivalent in the name order -/
theorem dom_eq_hash (a b : DKey) (h : domEq a b = true) :
    domHashKey a = domHashKey b ∧ domLt a b = false ∧ domLt b a = false := by
  have hab : a = b := by simpa [domEq] using h
  subst hab
  exact ⟨rfl, Ord.strLt_irrefl _, Ord.strLt_irrefl _⟩

/-- reactions whose types are strings: the tuple order is a strict total order -/
theorem rkeyLt_strictTotal_on_typed :
    (∀ a : RKey, rkeyLt a a = false) ∧
    (∀ a b c : RKey, rkeyLt a b = true → rkeyLt b c = true → rkeyLt a c = true) ∧
    (∀ a b : RKey, a.2.2.isSome → b.2.2.isSome → a = b ∨ rkeyLt a b = true ∨ rkeyLt b a = true) :=
  ⟨Ord.rkeyLt_irrefl, Ord.rkeyLt_trans, fun a b ha hb => Ord.rkeyLt_total a b ha hb⟩

/-! Sorting (C10 "sorted() behaves deterministically", C11 argument-order independence). -/

/-- `sortBy` returns a permutation of its input that is sorted -/
theorem sortBy_perm {α} (lt : α → α → Bool) (xs : List α) : (sortBy lt xs).Perm xs :=
  SortL.sortBy_perm lt xs
theorem sortBy_sorted {α} (lt : α → α → Bool) (hirr : ∀ a, lt a a = false)
    (htr : ∀ a b c, lt a b = true → lt b c = true → lt a c = true)
    (hneg : ∀ a b c, lt a b = false → lt b c = false → lt a c = false) (xs : List α) :
    (sortBy lt xs).Pairwise (fun a b => lt b a = false) :=
  SortL.sortBy_sorted lt hirr htr hneg xs

/-- sorting two permutations of a population in which only equal elements tie gives the same list -/
theorem sortBy_perm_invariant {α} {κ} [DecidableEq κ] (key : α → κ) (lt : κ → κ → Bool) (h : StrictTotal lt)
    (xs ys : List α) (hp : xs.Perm ys) (hinj : ∀ a ∈ xs, ∀ b ∈ xs, key a = key b → a = b) :
    sortBy (fun a b => lt (key a) (key b)) xs = sortBy (fun a b => lt (key a) (key b)) ys :=
  SortL.sortBy_perm_invariant key lt h.irrefl h.trans h.total xs ys hp hinj

/-! Macrostates and reactions are (multi)sets (C11).  Members are `(name, canonical form)` of live singleton
complexes, so members with equal canonical form are the same object: -/

def Singletons {κ} (ms : List (String × κ)) : Prop := ∀ a ∈ ms, ∀ b ∈ ms, a.2 = b.2 → a = b

/-- every permutation of the members denotes the same macrostate request: same canonical form, same automatic
    name, same registry outcome -/
theorem macro_perm_invariant (r : Reg MKey) (fresh : Nat) (ms ms' : List (String × CKey)) (name : Option String)
    (hp : ms.Perm ms') (hs : Singletons ms) :
    macroRequest r fresh (some ms) name = macroRequest r fresh (some ms') name := by
  have hsort : sortBy (fun a b => ckeyLt a.2 b.2) ms = sortBy (fun a b => ckeyLt a.2 b.2) ms' :=
    sortBy_perm_invariant (fun a : String × CKey => a.2) ckeyLt ckeyLt_strictTotal ms ms' hp hs
  have hc : ∀ n, (ms.map (·.1)).contains n = (ms'.map (·.1)).contains n := by
    intro n
    rw [Bool.eq_iff_iff, List.contains_iff_mem, List.contains_iff_mem]
    exact (hp.map _).mem_iff
  unfold macroRequest
  simp only [hsort, hc]

/-- the canonical form of a created macrostate is the sorted list of its members' forms; its automatic name is
    the name of the canonically smallest member -/
-- ORIGINAL STATEMENT (false: `fresh` may collide with the identity of an object already in `r`, and then
-- `findId id` returns that older object; e.g. r = {objs := [⟨0, "Z", [(["z"],['.'])], [[(["z"],['.'])]]⟩]},
-- fresh = 0, ms = [("A", (["a"], ['.']))], name = none: the request answers `.ret 0 true` but
-- `findId 0` is the object "Z" with canonical form [(["z"],['.'])] ≠ [(["a"],['.'])]):
--   theorem macro_canon_spec (r : Reg MKey) (fresh : Nat) (ms : List (String × CKey)) (name : Option String) (id : Nat)
--       (h : (macroRequest r fresh (some ms) name).2 = .ret id true) : ∃ o, … (same conclusion)
-- FIX: the identity handed to the constructor is unused (`hfresh`), as the driver guarantees.
theorem macro_canon_spec (r : Reg MKey) (fresh : Nat) (ms : List (String × CKey)) (name : Option String) (id : Nat)
    (hfresh : r.findId fresh = none)
    (h : (macroRequest r fresh (some ms) name).2 = .ret id true) :
    ∃ o, (macroRequest r fresh (some ms) name).1.findId id = some o ∧
      o.canon = (sortBy (fun a b => ckeyLt a.2 b.2) ms).map (·.2) ∧ o.canon.length = ms.length ∧
      (o.canon.Perm (ms.map (·.2))) ∧
      (name = none → some o.name = ((sortBy (fun a b => ckeyLt a.2 b.2) ms).head?).map (·.1)) ∧
      (∀ n, name = some n → o.name = n ∧ n ∈ ms.map (·.1)) := by
  have hlen : ((sortBy (fun a b => ckeyLt a.2 b.2) ms).map (·.2)).length = ms.length := by
    rw [List.length_map]; exact SortL.sortBy_length _ ms
  have hperm : ((sortBy (fun a b => ckeyLt a.2 b.2) ms).map (·.2)).Perm (ms.map (·.2)) :=
    (SortL.sortBy_perm _ ms).map _
  unfold macroRequest at h ⊢
  simp only at h ⊢
  cases name with
  | none =>
    simp only at h ⊢
    cases hsorted : sortBy (fun a b => ckeyLt a.2 b.2) ms with
    | nil => rw [hsorted] at h; simp at h
    | cons m rest =>
      rw [hsorted] at h hlen hperm
      simp only at h ⊢
      obtain ⟨n, k, hn, hk, hid, hfind⟩ := Reg.call_created r _ _ fresh _ false id hfresh h
      refine ⟨_, hfind, ?_, ?_, ?_, ?_, ?_⟩
      · simp only [List.map_cons, List.isEmpty_cons, Bool.false_eq_true, if_false, Option.some.injEq] at hk
        simp only [List.map_cons]; exact hk.symm
      · simp only [List.map_cons, List.isEmpty_cons, Bool.false_eq_true, if_false, Option.some.injEq] at hk
        rw [← hk]; exact hlen
      · simp only [List.map_cons, List.isEmpty_cons, Bool.false_eq_true, if_false, Option.some.injEq] at hk
        rw [← hk]; exact hperm
      · intro _
        simp only [Option.some.injEq] at hn
        simp [hn]
      · intro n' hn'; cases hn'
  | some nm =>
    simp only at h ⊢
    by_cases hmem : (ms.map (·.1)).contains nm = true
    · simp only [hmem, if_true] at h ⊢
      obtain ⟨n, k, hn, hk, hid, hfind⟩ := Reg.call_created r _ _ fresh _ false id hfresh h
      have hk' : (sortBy (fun a b => ckeyLt a.2 b.2) ms).map (·.2) = k := by
        split at hk
        · cases hk
        · exact Option.some.inj hk
      refine ⟨_, hfind, hk'.symm, ?_, ?_, ?_, ?_⟩
      · simp only; rw [← hk']; exact hlen
      · simp only; rw [← hk']; exact hperm
      · intro hnone; cases hnone
      · intro n' hn'
        simp only [Option.some.injEq] at hn hn'
        subst hn'
        exact ⟨hn.symm, List.contains_iff_mem.mp hmem⟩
    · simp only [hmem] at h
      simp at h

/-- changing a member changes the canonical form: equal forms ⇒ equal member multisets -/
theorem macro_injective (ms ms' : List (String × CKey))
    (h : (sortBy (fun a b => ckeyLt a.2 b.2) ms).map (·.2) = (sortBy (fun a b => ckeyLt a.2 b.2) ms').map (·.2)) :
    (ms.map (·.2)).Perm (ms'.map (·.2)) := by
  have p1 := (SortL.sortBy_perm (fun a b : String × CKey => ckeyLt a.2 b.2) ms).map (·.2)
  have p2 := (SortL.sortBy_perm (fun a b : String × CKey => ckeyLt a.2 b.2) ms').map (·.2)
  rw [h] at p1
  exact p1.symm.trans p2

/-- every permutation of reactants and of products denotes the same reaction request -/
theorem reaction_perm_invariant (r : Reg RKey) (fresh : Nat) (rs rs' ps ps' : List (String × MemKey))
    (rtype name : Option String) (h1 : rs.Perm rs') (h2 : ps.Perm ps') (hs1 : Singletons rs) (hs2 : Singletons ps) :
    reactionRequest r fresh (some rs) (some ps) rtype name = reactionRequest r fresh (some rs') (some ps') rtype name := by
  have h1' : sortBy (fun a b => memLt a.2 b.2) rs = sortBy (fun a b => memLt a.2 b.2) rs' :=
    sortBy_perm_invariant (fun a : String × MemKey => a.2) memLt memLt_strictTotal rs rs' h1 hs1
  have h2' : sortBy (fun a b => memLt a.2 b.2) ps = sortBy (fun a b => memLt a.2 b.2) ps' :=
    sortBy_perm_invariant (fun a : String × MemKey => a.2) memLt memLt_strictTotal ps ps' h2 hs2
  unfold reactionRequest
  simp only [h1', h2']

/-- a reaction always lists its reactants and products in canonical order; arity is the pair of multiset sizes -/
theorem reaction_lists_sorted (r : Reg RKey) (fresh : Nat) (rs ps : List (String × MemKey)) (rtype name : Option String) :
    ∃ lr lp, (reactionRequest r fresh (some rs) (some ps) rtype name).2.2 = some (lr, lp) ∧
      lr = (sortBy (fun a b => memLt a.2 b.2) rs).map (·.1) ∧ lp = (sortBy (fun a b => memLt a.2 b.2) ps).map (·.1) ∧
      lr.length = rs.length ∧ lp.length = ps.length := by
  refine ⟨_, _, rfl, rfl, rfl, ?_, ?_⟩
  · rw [List.length_map]; exact SortL.sortBy_length _ rs
  · rw [List.length_map]; exact SortL.sortBy_length _ ps

/-- two requests have the same canonical form exactly when reactant multisets, product multisets and type agree -/
theorem reaction_canon_iff (rs rs' ps ps' : List (String × MemKey)) (t t' : Option String) :
    (((sortBy (fun a b => memLt a.2 b.2) rs).map (·.2), (sortBy (fun a b => memLt a.2 b.2) ps).map (·.2), t) =
     ((sortBy (fun a b => memLt a.2 b.2) rs').map (·.2), (sortBy (fun a b => memLt a.2 b.2) ps').map (·.2), t')) ↔
    ((rs.map (·.2)).Perm (rs'.map (·.2)) ∧ (ps.map (·.2)).Perm (ps'.map (·.2)) ∧ t = t') := by
  have key : ∀ xs : List (String × MemKey),
      (sortBy (fun a b => memLt a.2 b.2) xs).map (·.2) = sortBy memLt (xs.map (·.2)) :=
    fun xs => SortL.sortBy_map (fun a : String × MemKey => a.2) memLt xs
  have inv : ∀ xs ys : List MemKey, xs.Perm ys → sortBy memLt xs = sortBy memLt ys :=
    SortL.sortBy_keys_perm memLt Ord.memLt_irrefl Ord.memLt_trans Ord.memLt_total
  have back : ∀ xs ys : List MemKey, sortBy memLt xs = sortBy memLt ys → xs.Perm ys := by
    intro xs ys h
    have p1 := SortL.sortBy_perm memLt xs
    have p2 := SortL.sortBy_perm memLt ys
    rw [h] at p1
    exact p1.symm.trans p2
  simp only [Prod.mk.injEq, key]
  constructor
  · rintro ⟨h1, h2, h3⟩
    exact ⟨back _ _ h1, back _ _ h2, h3⟩
  · rintro ⟨h1, h2, h3⟩
    exact ⟨inv _ _ h1, inv _ _ h2, h3⟩

/-- non-vacuity -/
example : macroRequest ({} : Reg MKey) 0 (some [("B", (["b"], ['.'])), ("A", (["a"], ['.']))]) none =
          macroRequest ({} : Reg MKey) 0 (some [("A", (["a"], ['.'])), ("B", (["b"], ['.']))]) none := by rfl

end Dsd.C11
