import DsdVerif.Gen.PyIdentifiers2
import DsdVerif.Lemmas.PyIdent2Sort
import DsdVerif.Props.C11Full
import DsdVerif.Props.C11Sets

/-!
`MacrostateS.identifiers` and `ReactionS.identifiers` of `dsdobjects/base_classes.py` AS THEY ARE WRITTEN in the working tree —
`Gen/PyIdentifiers2.lean` is regenerated from the source text, statement by statement, on every run (translator/pyident2.py) — in
closed form for EVERY argument, and the hand-written statement-level models `macroRequestFull` / `reactionRequestFull`
(Model/SetsFull.lean) are exactly `Singleton.__call__` (`Reg.callFull`) on what the translated methods return.  The C11 theorems
(argument-order independence, sorted member lists, canonical form of a macrostate) are then transferred to the code as written.

Reading (translator/pyident2.py): a member is the pair (name, canonical form); `nargs` / `newargs` is the pair of the optional
values of its keys `canon`, `name`.  For reactions the statements need that no member's form is the EMPTY macrostate tuple (no such
macrostate can be constructed; `PyIdent2.sortedByM_empty_macro` is the kernel-checked difference otherwise).
-/
namespace Dsd.PyIdent2
open Dsd Dsd.Gen Dsd.SetsFull

/-! ### `MacrostateS.identifiers` -/

/-- **`MacrostateS.identifiers` as written in the source, in closed form**, for every argument -/
theorem py_MacrostateS_identifiers_eq (members : Option (List (String × CKey))) (name : Option String) :
    py_MacrostateS_identifiers members name =
      match members with
      | none => (match name with | none => .error .assertion | some n => .ok (none, some n, (none, none)))
      | some ms =>
        let sorted := sortBy (fun a b => ckeyLt a.2 b.2) ms
        match name with
        | none =>
          (match sorted with
           | [] => .error (.fault "IndexError")
           | m :: _ => .ok (some sorted, some m.1, (some (some sorted), some (some m.1))))
        | some n =>
          if (sorted.map (·.1)).contains n then .ok (some sorted, some n, (some (some sorted), none)) else .error .assertion := by
  cases members with
  | none => cases name <;> rfl
  | some ms =>
    simp only [py_MacrostateS_identifiers, sortedBy_eq, ckeyLt_eq, Py.unwrap, bind, Except.bind, pure, Except.pure, Option.isNone,
      Bool.false_eq_true, if_false]
    cases name with
    | none =>
      simp only [Option.isNone, if_true]
      cases hs : sortBy (fun a b => ckeyLt a.2 b.2) ms with
      | nil => rfl
      | cons m rest => rfl
    | some n =>
      simp only [Option.isNone, Bool.false_eq_true, if_false, Py.optIn]
      by_cases hc : ((sortBy (fun a b => ckeyLt a.2 b.2) ms).map (·.1)).contains n = true
      · simp only [hc, Bool.not_true, Bool.false_eq_true, if_false, if_true]
      · simp only [hc, Bool.not_false, if_true]; rfl

/-- the outcome that stands for an exception of the source -/
def outOfErr : Err → Out
  | .secondaryStructure => .ssErr
  | .objectInit => .objectInitErr
  | .singleton e => .singletonErr e
  | .notImplemented => .notImplemented
  | .assertion => .assertion
  | .pilFormat => .fault "PilFormatError"
  | .parse => .fault "ParseException"
  | .fault k => .fault k

/-- the canonical form `Singleton.__call__` tests and registers: the tuple of the members (read through their canonical forms);
    `None` and the empty tuple are falsy -/
def macroCanonView (canon : Option (List (String × CKey))) : Option MKey :=
  match canon with
  | none => none
  | some l => if (l.map (·.2)).isEmpty then none else some (l.map (·.2))

theorem contains_sorted (ms : List (String × CKey)) (n : String) :
    ((sortBy (fun a b => ckeyLt a.2 b.2) ms).map (·.1)).contains n = (ms.map (·.1)).contains n := by
  rw [Bool.eq_iff_iff, List.contains_iff_mem, List.contains_iff_mem]
  exact ((SortL.sortBy_perm _ ms).map (·.1)).mem_iff

/-- **the model's `MacrostateS(complexes, name)` IS `Singleton.__call__` on what the source's `MacrostateS.identifiers` returns**,
    for every registry and every argument -/
theorem macroRequestFull_eq_py (r : Reg MKey) (fresh : Nat) (members : Option (List (String × CKey))) (name : Option String) :
    macroRequestFull r fresh members name =
      match py_MacrostateS_identifiers members name with
      | .error e => (r, outOfErr e)
      | .ok (canon, nm, _) => r.callFull (macroCanonView canon) (nm.getD "") fresh [] false := by
  rw [py_MacrostateS_identifiers_eq]
  unfold macroRequestFull
  cases members with
  | none => cases name <;> rfl
  | some ms =>
    cases name with
    | none =>
      simp only
      cases hs : sortBy (fun a b => ckeyLt a.2 b.2) ms with
      | nil => rfl
      | cons m rest => rfl
    | some n =>
      simp only [contains_sorted]
      split <;> rfl

/-- hence (`C11.macroRequestFull_eq`) the net-effect model `macroRequest` is `Singleton.__call__` on the source's identifiers, for
    non-empty names -/
theorem py_macro_request (r : Reg MKey) (fresh : Nat) (members : Option (List (String × CKey))) (name : Option String)
    (hname : name ≠ some "") (hmem : ∀ ms, members = some ms → ∀ m ∈ ms, m.1 ≠ "") :
    (match py_MacrostateS_identifiers members name with
      | .error e => (r, outOfErr e)
      | .ok (canon, nm, _) => r.callFull (macroCanonView canon) (nm.getD "") fresh [] false) =
    macroRequest r fresh members name := by
  rw [← macroRequestFull_eq_py]; exact C11.macroRequestFull_eq r fresh members name hname hmem

/-- **a macrostate is a set**: every permutation of the members (live singletons: equal canonical forms mean the same object)
    gives the same identifiers — canonical form, name, new arguments (the content of `C11.macro_perm_invariant`, on the source's
    method) -/
theorem py_macro_perm_invariant (ms ms' : List (String × CKey)) (name : Option String) (hp : ms.Perm ms') (hs : C11.Singletons ms) :
    py_MacrostateS_identifiers (some ms) name = py_MacrostateS_identifiers (some ms') name := by
  have hsort : sortBy (fun a b => ckeyLt a.2 b.2) ms = sortBy (fun a b => ckeyLt a.2 b.2) ms' :=
    C11.sortBy_perm_invariant (fun a : String × CKey => a.2) ckeyLt C11.ckeyLt_strictTotal ms ms' hp hs
  rw [py_MacrostateS_identifiers_eq, py_MacrostateS_identifiers_eq]
  simp only [hsort]

/-- **the canonical form of a macrostate the source computes**: the members sorted by canonical form — a permutation of the
    members given, as many — and without a name the name of the first of them; with a name, one that a member has (the content
    of `C11.macro_canon_spec`) -/
theorem py_macro_canon_spec (ms : List (String × CKey)) (name : Option String)
    (canon : Option (List (String × CKey))) (nm : Option String) (nargs : Option (Option (List (String × CKey))) × Option (Option String))
    (h : py_MacrostateS_identifiers (some ms) name = .ok (canon, nm, nargs)) :
    canon = some (sortBy (fun a b => ckeyLt a.2 b.2) ms) ∧ nargs.1 = some canon ∧
    (∀ l, canon = some l → l.Perm ms ∧ l.length = ms.length ∧ l.Pairwise (fun a b => ckeyLt b.2 a.2 = false)) ∧
    (name = none → nm = ((sortBy (fun a b => ckeyLt a.2 b.2) ms).head?).map (·.1) ∧ nargs.2 = some nm) ∧
    (∀ n, name = some n → nm = some n ∧ n ∈ ms.map (·.1) ∧ nargs.2 = none) := by
  rw [py_MacrostateS_identifiers_eq] at h
  have hspec : ∀ l, some (sortBy (fun a b => ckeyLt a.2 b.2) ms) = some l →
      l.Perm ms ∧ l.length = ms.length ∧ l.Pairwise (fun a b => ckeyLt b.2 a.2 = false) := by
    intro l hl
    injection hl with hl
    subst hl
    refine ⟨SortL.sortBy_perm _ ms, SortL.sortBy_length _ ms, ?_⟩
    exact SortL.sortBy_sorted (fun a b : String × CKey => ckeyLt a.2 b.2) (fun a => C11.ckeyLt_strictTotal.irrefl a.2)
      (fun a b c => C11.ckeyLt_strictTotal.trans a.2 b.2 c.2) (fun a b c h1 h2 => by
        rcases C11.ckeyLt_strictTotal.total a.2 b.2 with e | e | e
        · rw [e]; exact h2
        · rw [e] at h1; cases h1
        · rcases C11.ckeyLt_strictTotal.total b.2 c.2 with f | f | f
          · rw [← f]; exact h1
          · rw [f] at h2; cases h2
          · cases hac : ckeyLt a.2 c.2 with
            | false => rfl
            | true =>
              have := C11.ckeyLt_strictTotal.trans _ _ _ f (C11.ckeyLt_strictTotal.trans _ _ _ e hac)
              rw [C11.ckeyLt_strictTotal.irrefl] at this; cases this) ms
  cases name with
  | none =>
    simp only at h
    cases hs : sortBy (fun a b => ckeyLt a.2 b.2) ms with
    | nil => rw [hs] at h; cases h
    | cons m rest =>
      rw [hs] at h hspec
      injection h with h
      injection h with h1 h2; injection h2 with h2 h3
      subst h1; subst h2; subst h3
      exact ⟨rfl, rfl, hspec, (fun _ => ⟨rfl, rfl⟩), (fun n hn => by cases hn)⟩
  | some n =>
    simp only at h
    split at h
    · rename_i hc
      injection h with h
      injection h with h1 h2; injection h2 with h2 h3
      subst h1; subst h2; subst h3
      refine ⟨rfl, rfl, hspec, (fun hn => by cases hn), fun n' hn => ?_⟩
      injection hn with hn; subst hn
      rw [contains_sorted, List.contains_iff_mem] at hc
      exact ⟨rfl, hc, rfl⟩
    · cases h

/-- the three ways the source's method raises, and two calls that succeed (kernel-checked) -/
theorem py_MacrostateS_identifiers_examples :
    py_MacrostateS_identifiers none none = .error .assertion ∧
    py_MacrostateS_identifiers (some []) none = .error (.fault "IndexError") ∧
    py_MacrostateS_identifiers (some [("B", (["b"], ['.']))]) (some "A") = .error .assertion ∧
    py_MacrostateS_identifiers (some [("B", (["b"], ['.'])), ("A", (["a"], ['.']))]) none =
      .ok (some [("A", (["a"], ['.'])), ("B", (["b"], ['.']))], some "A",
           (some (some [("A", (["a"], ['.'])), ("B", (["b"], ['.']))]), some (some "A"))) ∧
    py_MacrostateS_identifiers none (some "M") = .ok (none, some "M", (none, none)) := ⟨rfl, rfl, rfl, rfl, rfl⟩

end Dsd.PyIdent2
