import DsdVerif.Gen.PyIdentifiers2
import DsdVerif.Lemmas.PyIdent2Sort
import DsdVerif.Props.C11Full
import DsdVerif.Props.C11Sets

/-!
`MacrostateS.identifiers` and `ReactionS.identifiers` of `dsdobjects/base_classes.py` AS THEY ARE WRITTEN in the working tree —
`Gen/PyIdentifiers2.lean` is regenerated from the source text, statement by statement, on every run (translator/pyident2.py) — in
closed form for EVERY argument, and the hand-written statement-level models `macroRequestFull` / `reactionRequestFull`
(Model/SetsFull.lean) are exactly `Singleton.__call__` (`Reg.callFull`) on what the translated methods return.  The C11 theorems
(argument-order independence, sorted member lists, canonical form of a macrostate) are then transferred to the code as written.

Reading (translator/pyident2.py): a member is the pair (name, canonical form); `nargs` / `newargs` is the pair of the optional
values of its keys `canon`, `name`.  For reactions the statements need that no member's form is the EMPTY macrostate tuple (no such
macrostate can be constructed; `PyIdent2.sortedByM_empty_macro` is the kernel-checked difference otherwise).
-/
namespace Dsd.PyIdent2
open Dsd Dsd.Gen Dsd.SetsFull

/-! ### `MacrostateS.identifiers` -/

/-- **`MacrostateS.identifiers` as written in the source, in closed form**, for every argument -/
theorem py_MacrostateS_identifiers_eq (members : Option (List (String × CKey))) (name : Option String) :
    py_MacrostateS_identifiers members name =
      match members with
      | none => (match name with | none => .error .assertion | some n => .ok (none, some n, (none, none)))
      | some ms =>
        let sorted := sortBy (fun a b => ckeyLt a.2 b.2) ms
        match name with
        | none =>
          (match sorted with
           | [] => .error (.fault "IndexError")
           | m :: _ => .ok (some sorted, some m.1, (some (some sorted), some (some m.1))))
        | some n =>
          if (sorted.map (·.1)).contains n then .ok (some sorted, some n, (some (some sorted), none)) else .error .assertion := by
  cases members with
  | none => cases name <;> rfl
  | some ms =>
    simp only [py_MacrostateS_identifiers, sortedBy_eq, ckeyLt_eq, Py.unwrap, bind, Except.bind, pure, Except.pure, Option.isNone,
      Bool.false_eq_true, if_false]
    cases name with
    | none =>
      simp only [Option.isNone, if_true]
      cases hs : sortBy (fun a b => ckeyLt a.2 b.2) ms with
      | nil => rfl
      | cons m rest => rfl
    | some n =>
      simp only [Option.isNone, Bool.false_eq_true, if_false, Py.optIn]
      by_cases hc : ((sortBy (fun a b => ckeyLt a.2 b.2) ms).map (·.1)).contains n = true
      · simp only [hc, Bool.not_true, Bool.false_eq_true, if_false, if_true]
      · simp only [hc, Bool.not_false, if_true]; rfl

/-- the outcome that stands for an exception of the source -/
def outOfErr : Err → Out
  | .secondaryStructure => .ssErr
  | .objectInit => .objectInitErr
  | .singleton e => .singletonErr e
  | .notImplemented => .notImplemented
  | .assertion => .assertion
  | .pilFormat => .fault "PilFormatError"
  | .parse => .fault "ParseException"
  | .fault k => .fault k

/-- the canonical form `Singleton.__call__` tests and registers: the tuple of the members (read through their canonical forms);
    `None` and the empty tuple are falsy -/
def macroCanonView (canon : Option (List (String × CKey))) : Option MKey :=
  match canon with
  | none => none
  | some l => if (l.map (·.2)).isEmpty then none else some (l.map (·.2))

theorem contains_sorted (ms : List (String × CKey)) (n : String) :
    ((sortBy (fun a b => ckeyLt a.2 b.2) ms).map (·.1)).contains n = (ms.map (·.1)).contains n := by
  rw [Bool.eq_iff_iff, List.contains_iff_mem, List.contains_iff_mem]
  exact ((SortL.sortBy_perm _ ms).map (·.1)).mem_iff

/-- **the model's `MacrostateS(complexes, name)` IS `Singleton.__call__` on what the source's `MacrostateS.identifiers` returns**,
    for every registry and every argument -/
theorem macroRequestFull_eq_py (r : Reg MKey) (fresh : Nat) (members : Option (List (String × CKey))) (name : Option String) :
    macroRequestFull r fresh members name =
      match py_MacrostateS_identifiers members name with
      | .error e => (r, outOfErr e)
      | .ok (canon, nm, _) => r.callFull (macroCanonView canon) (nm.getD "") fresh [] false := by
  rw [py_MacrostateS_identifiers_eq]
  unfold macroRequestFull
  cases members with
  | none => cases name <;> rfl
  | some ms =>
    cases name with
    | none =>
      simp only
      cases hs : sortBy (fun a b => ckeyLt a.2 b.2) ms with
      | nil => rfl
      | cons m rest => rfl
    | some n =>
      simp only [contains_sorted]
      split <;> rfl

/-- hence (`C11.macroRequestFull_eq`) the net-effect model `macroRequest` is `Singleton.__call__` on the source's identifiers, for
    non-empty names -/
theorem py_macro_request (r : Reg MKey) (fresh : Nat) (members : Option (List (String × CKey))) (name : Option String)
    (hname : name ≠ some "") (hmem : ∀ ms, members = some ms → ∀ m ∈ ms, m.1 ≠ "") :
    (match py_MacrostateS_identifiers members name with
      | .error e => (r, outOfErr e)
      | .ok (canon, nm, _) => r.callFull (macroCanonView canon) (nm.getD "") fresh [] false) =
    macroRequest r fresh members name := by
  rw [← macroRequestFull_eq_py]; exact C11.macroRequestFull_eq r fresh members name hname hmem

/-- **a macrostate is a set**: every permutation of the members (live singletons: equal canonical forms mean the same object)
    gives the same identifiers — canonical form, name, new arguments (the content of `C11.macro_perm_invariant`, on the source's
    method) -/
theorem py_macro_perm_invariant (ms ms' : List (String × CKey)) (name : Option String) (hp : ms.Perm ms') (hs : C11.Singletons ms) :
    py_MacrostateS_identifiers (some ms) name = py_MacrostateS_identifiers (some ms') name := by
  have hsort : sortBy (fun a b => ckeyLt a.2 b.2) ms = sortBy (fun a b => ckeyLt a.2 b.2) ms' :=
    C11.sortBy_perm_invariant (fun a : String × CKey => a.2) ckeyLt C11.ckeyLt_strictTotal ms ms' hp hs
  rw [py_MacrostateS_identifiers_eq, py_MacrostateS_identifiers_eq]
  simp only [hsort]

/-- **the canonical form of a macrostate the source computes**: the members sorted by canonical form — a permutation of the
    members given, as many — and without a name the name of the first of them; with a name, one that a member has (the content
    of `C11.macro_canon_spec`) -/
theorem py_macro_canon_spec (ms : List (String × CKey)) (name : Option String)
    (canon : Option (List (String × CKey))) (nm : Option String) (nargs : Option (Option (List (String × CKey))) × Option (Option String))
    (h : py_MacrostateS_identifiers (some ms) name = .ok (canon, nm, nargs)) :
    canon = some (sortBy (fun a b => ckeyLt a.2 b.2) ms) ∧ nargs.1 = some canon ∧
    (∀ l, canon = some l → l.Perm ms ∧ l.length = ms.length ∧ l.Pairwise (fun a b => ckeyLt b.2 a.2 = false)) ∧
    (name = none → nm = ((sortBy (fun a b => ckeyLt a.2 b.2) ms).head?).map (·.1) ∧ nargs.2 = some nm) ∧
    (∀ n, name = some n → nm = some n ∧ n ∈ ms.map (·.1) ∧ nargs.2 = none) := by
  rw [py_MacrostateS_identifiers_eq] at h
  have hspec : ∀ l, some (sortBy (fun a b => ckeyLt a.2 b.2) ms) = some l →
      l.Perm ms ∧ l.length = ms.length ∧ l.Pairwise (fun a b => ckeyLt b.2 a.2 = false) := by
    intro l hl
    injection hl with hl
    subst hl
    refine ⟨SortL.sortBy_perm _ ms, SortL.sortBy_length _ ms, ?_⟩
    exact SortL.sortBy_sorted (fun a b : String × CKey => ckeyLt a.2 b.2) (fun a => C11.ckeyLt_strictTotal.irrefl a.2)
      (fun a b c => C11.ckeyLt_strictTotal.trans a.2 b.2 c.2) (fun a b c h1 h2 => by
        rcases C11.ckeyLt_strictTotal.total a.2 b.2 with e | e | e
        · rw [e]; exact h2
        · rw [e] at h1; cases h1
        · rcases C11.ckeyLt_strictTotal.total b.2 c.2 with f | f | f
          · rw [← f]; exact h1
          · rw [f] at h2; cases h2
          · cases hac : ckeyLt a.2 c.2 with
            | false => rfl
            | true =>
              have := C11.ckeyLt_strictTotal.trans _ _ _ f (C11.ckeyLt_strictTotal.trans _ _ _ e hac)
              rw [C11.ckeyLt_strictTotal.irrefl] at this; cases this) ms
  cases name with
  | none =>
    simp only at h
    cases hs : sortBy (fun a b => ckeyLt a.2 b.2) ms with
    | nil => rw [hs] at h; cases h
    | cons m rest =>
      rw [hs] at h hspec
      injection h with h
      injection h with h1 h2; injection h2 with h2 h3
      subst h1; subst h2; subst h3
      exact ⟨rfl, rfl, hspec, (fun _ => ⟨rfl, rfl⟩), (fun n hn => by cases hn)⟩
  | some n =>
    simp only at h
    split at h
    · rename_i hc
      injection h with h
      injection h with h1 h2; injection h2 with h2 h3
      subst h1; subst h2; subst h3
      refine ⟨rfl, rfl, hspec, (fun hn => by cases hn), fun n' hn => ?_⟩
      injection hn with hn; subst hn
      rw [contains_sorted, List.contains_iff_mem] at hc
      exact ⟨rfl, hc, rfl⟩
    · cases h

/-- the three ways the source's method raises, and two calls that succeed (kernel-checked) -/
theorem py_MacrostateS_identifiers_examples :
    py_MacrostateS_identifiers none none = .error .assertion ∧
    py_MacrostateS_identifiers (some []) none = .error (.fault "IndexError") ∧
    py_MacrostateS_identifiers (some [("B", (["b"], ['.']))]) (some "A") = .error .assertion ∧
    py_MacrostateS_identifiers (some [("B", (["b"], ['.'])), ("A", (["a"], ['.']))]) none =
      .ok (some [("A", (["a"], ['.'])), ("B", (["b"], ['.']))], some "A",
           (some (some [("A", (["a"], ['.'])), ("B", (["b"], ['.']))]), some (some "A"))) ∧
    py_MacrostateS_identifiers none (some "M") = .ok (none, some "M", (none, none)) := ⟨rfl, rfl, rfl, rfl, rfl⟩

/-! ### `ReactionS.identifiers` -/

/-- no member of the list is a macrostate without members (there is no such object) -/
def NoEmptyMacro (l : Option (List (String × MemKey))) : Prop := ∀ ms, l = some ms → ∀ y ∈ ms, y.2 ≠ .m []

theorem strOpt_eq (o : Option String) : Py.strOpt o = o.getD "None" := by cases o <;> rfl

/-- **`ReactionS.identifiers` as written in the source, in closed form**, for every argument (members without empty
    macrostate forms): the look-up by name alone; TypeError for a missing list; AssertionError out of `sorted` exactly for a list
    that mixes complexes and macrostates (`pySorted`), reactants first; else the sorted forms, the type, and the name as given or
    `[rtype] A + B -> C` over the members in sorted order -/
theorem py_ReactionS_identifiers_eq (rs ps : Option (List (String × MemKey))) (rtype name : Option String)
    (hr : NoEmptyMacro rs) (hp : NoEmptyMacro ps) :
    py_ReactionS_identifiers rs ps rtype name =
      match name, rs, ps, rtype with
      | some n, none, none, none => .ok (none, some n, (none, none))
      | _, _, _, _ =>
        match rs with
        | none => .error (.fault "TypeError")
        | some rl =>
          match pySorted rl with
          | none => .error .assertion
          | some rs' =>
            match ps with
            | none => .error (.fault "TypeError")
            | some pl =>
              match pySorted pl with
              | none => .error .assertion
              | some ps' =>
                let canon : RKey := (rs'.map (·.2), ps'.map (·.2), rtype)
                match name with
                | some n => .ok (some canon, some n, (some canon, none))
                | none =>
                  let nm := "[" ++ (rtype.getD "None") ++ "] " ++ " + ".intercalate (rs'.map (·.1)) ++ " -> " ++
                    " + ".intercalate (ps'.map (·.1))
                  .ok (some canon, some nm, (some canon, some (some nm))) := by
  cases rs with
  | none =>
    cases name <;> cases ps <;> cases rtype <;> rfl
  | some rl =>
    have hrl := hr rl rfl
    cases ps with
    | none =>
      simp only [py_ReactionS_identifiers, Py.unwrap, bind, Except.bind, pure, Except.pure, sortedForms_eq rl hrl, Option.isNone,
        Bool.and_false, Bool.false_and, Bool.false_eq_true, if_false]
      cases pySorted rl <;> rfl
    | some pl =>
      have hpl := hp pl rfl
      simp only [py_ReactionS_identifiers, Py.unwrap, bind, Except.bind, pure, Except.pure, sortedForms_eq rl hrl, sortedForms_eq pl hpl,
        sortedMembers_eq rl hrl, sortedMembers_eq pl hpl, Option.isNone,
        Bool.and_false, Bool.false_and, Bool.false_eq_true, if_false, strOpt_eq, Py.strJoinS]
      cases pySorted rl with
      | none => rfl
      | some rs' =>
        cases pySorted pl with
        | none => rfl
        | some ps' =>
          cases name <;> rfl

/-- **the model's `ReactionS(reactants, products, rtype, name)` IS `Singleton.__call__` on what the source's
    `ReactionS.identifiers` returns** (registry and outcome; the third component of the model are the lists `__init__` stores) -/
theorem reactionRequestFull_eq_py (r : Reg RKey) (fresh : Nat) (rs ps : Option (List (String × MemKey))) (rtype name : Option String)
    (hr : NoEmptyMacro rs) (hp : NoEmptyMacro ps) :
    ((reactionRequestFull r fresh rs ps rtype name).1, (reactionRequestFull r fresh rs ps rtype name).2.1) =
      match py_ReactionS_identifiers rs ps rtype name with
      | .error e => (r, outOfErr e)
      | .ok (canon, nm, _) => r.callFull canon (nm.getD "") fresh [] false := by
  rw [py_ReactionS_identifiers_eq rs ps rtype name hr hp]
  unfold reactionRequestFull
  cases rs with
  | none => cases name <;> cases ps <;> cases rtype <;> rfl
  | some rl =>
    cases ps with
    | none =>
      simp only
      cases pySorted rl <;> cases name <;> rfl
    | some pl =>
      simp only
      cases pySorted rl with
      | none => cases name <;> rfl
      | some rs' =>
        cases pySorted pl with
        | none => cases name <;> rfl
        | some ps' => cases name <;> rfl

theorem mixed_perm (l l' : List (String × MemKey)) (h : l.Perm l') : mixed l = mixed l' := by
  unfold mixed
  rw [h.any_eq, h.any_eq]

/-- **a reaction is a pair of multisets**: permuting reactants and products (live singletons) gives the same identifiers (the
    content of `C11.reaction_perm_invariant`, on the source's method) -/
theorem py_reaction_perm_invariant (rs rs' ps ps' : List (String × MemKey)) (rtype name : Option String)
    (h1 : rs.Perm rs') (h2 : ps.Perm ps') (hs1 : C11.Singletons rs) (hs2 : C11.Singletons ps)
    (hr : NoEmptyMacro (some rs)) (hp : NoEmptyMacro (some ps)) :
    py_ReactionS_identifiers (some rs) (some ps) rtype name = py_ReactionS_identifiers (some rs') (some ps') rtype name := by
  have hr' : NoEmptyMacro (some rs') := fun ms e y hy => by cases e; exact hr rs rfl y (h1.mem_iff.mpr hy)
  have hp' : NoEmptyMacro (some ps') := fun ms e y hy => by cases e; exact hp ps rfl y (h2.mem_iff.mpr hy)
  have e1 : pySorted rs = pySorted rs' := by
    unfold pySorted
    rw [mixed_perm rs rs' h1, C11.sortBy_perm_invariant (fun a : String × MemKey => a.2) memLt C11.memLt_strictTotal rs rs' h1 hs1]
  have e2 : pySorted ps = pySorted ps' := by
    unfold pySorted
    rw [mixed_perm ps ps' h2, C11.sortBy_perm_invariant (fun a : String × MemKey => a.2) memLt C11.memLt_strictTotal ps ps' h2 hs2]
  rw [py_ReactionS_identifiers_eq _ _ _ _ hr hp, py_ReactionS_identifiers_eq _ _ _ _ hr' hp']
  simp only [e1, e2]

/-- hence (`C11.reactionRequestFull_eq`) the net-effect model `reactionRequest` is `Singleton.__call__` on the source's
    identifiers, for unmixed member lists and non-empty names -/
theorem py_reaction_request (r : Reg RKey) (fresh : Nat) (rs ps : Option (List (String × MemKey))) (rtype name : Option String)
    (hname : name ≠ some "") (hr : ∀ l, rs = some l → mixed l = false) (hp : ∀ l, ps = some l → mixed l = false)
    (hre : NoEmptyMacro rs) (hpe : NoEmptyMacro ps) :
    (match py_ReactionS_identifiers rs ps rtype name with
      | .error e => (r, outOfErr e)
      | .ok (canon, nm, _) => r.callFull canon (nm.getD "") fresh [] false) =
    ((reactionRequest r fresh rs ps rtype name).1, (reactionRequest r fresh rs ps rtype name).2.1) := by
  rw [← reactionRequestFull_eq_py _ _ _ _ _ _ hre hpe, C11.reactionRequestFull_eq r fresh rs ps rtype name hname hr hp]

/-- a successful call on two lists: none of them is mixed, the canonical form is (sorted reactant forms, sorted product forms,
    type), and it is what `newargs['canon']` hands to `__init__` -/
theorem py_reaction_ok (rs ps : List (String × MemKey)) (rtype name : Option String)
    (hr : NoEmptyMacro (some rs)) (hp : NoEmptyMacro (some ps))
    (res : Option RKey × Option String × Option RKey × Option (Option String))
    (h : py_ReactionS_identifiers (some rs) (some ps) rtype name = .ok res) :
    mixed rs = false ∧ mixed ps = false ∧
      res.1 = some ((sortBy (fun a b => memLt a.2 b.2) rs).map (·.2), (sortBy (fun a b => memLt a.2 b.2) ps).map (·.2), rtype) ∧
      res.2.2.1 = res.1 := by
  rw [py_ReactionS_identifiers_eq _ _ _ _ hr hp] at h
  unfold pySorted at h
  cases hm1 : mixed rs with
  | true => cases name <;> simp [hm1] at h
  | false =>
    cases hm2 : mixed ps with
    | true => cases name <;> simp [hm1, hm2] at h
    | false =>
      cases name with
      | none =>
        simp only [hm1, hm2, Bool.false_eq_true, if_false] at h
        injection h with h; subst h
        exact ⟨rfl, rfl, rfl, rfl⟩
      | some n =>
        simp only [hm1, hm2, Bool.false_eq_true, if_false] at h
        injection h with h; subst h
        exact ⟨rfl, rfl, rfl, rfl⟩

/-- **two requests get the same canonical form from the source's method exactly when reactant multisets, product multisets and
    type agree** (`C11.reaction_canon_iff` transferred) -/
theorem py_reaction_canon_iff (rs rs' ps ps' : List (String × MemKey)) (t t' name name' : Option String)
    (hr : NoEmptyMacro (some rs)) (hp : NoEmptyMacro (some ps)) (hr' : NoEmptyMacro (some rs')) (hp' : NoEmptyMacro (some ps'))
    (res res' : Option RKey × Option String × Option RKey × Option (Option String))
    (h : py_ReactionS_identifiers (some rs) (some ps) t name = .ok res)
    (h' : py_ReactionS_identifiers (some rs') (some ps') t' name' = .ok res') :
    res.1 = res'.1 ↔ ((rs.map (·.2)).Perm (rs'.map (·.2)) ∧ (ps.map (·.2)).Perm (ps'.map (·.2)) ∧ t = t') := by
  obtain ⟨_, _, e, _⟩ := py_reaction_ok rs ps t name hr hp res h
  obtain ⟨_, _, e', _⟩ := py_reaction_ok rs' ps' t' name' hr' hp' res' h'
  rw [e, e', Option.some.injEq]
  exact C11.reaction_canon_iff rs rs' ps ps' t t'

/-- the ways the source's method raises and two calls that succeed (kernel-checked) -/
theorem py_ReactionS_identifiers_examples :
    py_ReactionS_identifiers none none none none = .error (.fault "TypeError") ∧
    py_ReactionS_identifiers none none none (some "r") = .ok (none, some "r", (none, none)) ∧
    py_ReactionS_identifiers (some [("A", .c (["a"], ['.'])), ("M", .m [(["a"], ['.'])])]) (some []) (some "x") none = .error .assertion ∧
    py_ReactionS_identifiers (some [("A", .c (["a"], ['.']))]) none (some "x") none = .error (.fault "TypeError") ∧
    py_ReactionS_identifiers (some [("B", .c (["b"], ['.'])), ("A", .c (["a"], ['.']))]) (some [("M", .m [(["a"], ['.'])])]) none none =
      .ok (some ([.c (["a"], ['.']), .c (["b"], ['.'])], [.m [(["a"], ['.'])]], none), some "[None] A + B -> M",
           (some ([.c (["a"], ['.']), .c (["b"], ['.'])], [.m [(["a"], ['.'])]], none), some (some "[None] A + B -> M"))) :=
  ⟨rfl, rfl, rfl, rfl, rfl⟩

end Dsd.PyIdent2

#print axioms Dsd.PyIdent2.py_MacrostateS_identifiers_eq
#print axioms Dsd.PyIdent2.macroRequestFull_eq_py
#print axioms Dsd.PyIdent2.py_macro_request
#print axioms Dsd.PyIdent2.py_macro_perm_invariant
#print axioms Dsd.PyIdent2.py_macro_canon_spec
#print axioms Dsd.PyIdent2.py_MacrostateS_identifiers_examples
#print axioms Dsd.PyIdent2.py_ReactionS_identifiers_eq
#print axioms Dsd.PyIdent2.reactionRequestFull_eq_py
#print axioms Dsd.PyIdent2.py_reaction_request
#print axioms Dsd.PyIdent2.py_reaction_perm_invariant
#print axioms Dsd.PyIdent2.py_reaction_ok
#print axioms Dsd.PyIdent2.py_reaction_canon_iff
#print axioms Dsd.PyIdent2.py_ReactionS_identifiers_examples
#print axioms Dsd.PyIdent2.sortedByM_eq
#print axioms Dsd.PyIdent2.sortedMembers_eq
#print axioms Dsd.PyIdent2.sortedForms_eq
#print axioms Dsd.PyIdent2.sortedByM_empty_macro
#print axioms Dsd.PyIdent2.ckeyLt_eq
#print axioms Dsd.PyIdent2.sortedBy_eq
