import DsdVerif.Model.Legacy
import DsdVerif.Props.C02Canon
import DsdVerif.Lemmas.Legacy

namespace Dsd.C20L
open Dsd Dsd.C02

/-- **the legacy object model computes the same canonical form as the current one**: for every well-formed
    description the legacy minimum over the rotations met while turning the object once around equals the
    current API's canonical form (computed with nothing registered) -/
theorem legacy_canon_eq (seq : List String) (sst : List Char) (hd : Descr seq sst) (ids : CplxIds)
    (h : complexIdentifiers ({} : Reg CKey) seq sst = .ok ids) :
    ∃ rot, legacyCanon seq sst = .ok (ids.canon, rot) ∧ rot ≤ nStrands seq := by
  have hd' := (descr_iff _ _).mp hd
  obtain ⟨c, e, hl, _, _, _, hmem, hmin⟩ := Rot.legacyCanon_spec seq sst hd'
  obtain ⟨a1, a2, _⟩ := canon_mem_min {} seq sst ids hd h (fun k _ => rfl)
  rw [orbit_eq, nStrands_eq] at a1 a2
  have hcc : c = ids.canon :=
    Ord.min_unique ckeyLt Ord.ckeyLt_sto _ _ _ _ (fun _ => Iff.rfl) ⟨hmem, hmin⟩ ⟨a1, a2⟩
  refine ⟨Rot.nStr seq - e, ?_, ?_⟩
  · rw [hl, hcc]
  · rw [nStrands_eq]; omega

/-- the legacy `_rotations` counts the turns from the canonical form to the representation, like the current
    `turns` (both are exponents of `rotateOnce` modulo the number of strands) -/
theorem legacy_rotations_spec (seq : List String) (sst : List Char) (hd : Descr seq sst) (c : CKey) (rot : Nat)
    (h : legacyCanon seq sst = .ok (c, rot)) :
    rotateN (rot % nStrands seq) c.1 c.2 = .ok (seq, sst) := by
  have hd' := (descr_iff _ _).mp hd
  obtain ⟨c0, e, hl, h1, h2, hrot, _, _⟩ := Rot.legacyCanon_spec seq sst hd'
  rw [h] at hl
  simp only [Except.ok.injEq, Prod.mk.injEq] at hl
  obtain ⟨rfl, rfl⟩ := hl
  rw [nStrands_eq]
  exact Rot.legacy_rot_back seq sst hd' c e h1 h2 hrot

/-- a rotated duplicate is detected exactly when the current API resolves the request to the existing object:
    the canonical forms coincide iff the new description is a rotation of the registered one -/
theorem legacy_dup_iff (seq seq' : List String) (sst sst' : List Char) (hd : Descr seq sst) (hd' : Descr seq' sst')
    (c c' : CKey) (r r' : Nat) (h : legacyCanon seq sst = .ok (c, r)) (h' : legacyCanon seq' sst' = .ok (c', r')) :
    c = c' ↔ (seq', sst') ∈ orbit (nStrands seq) seq sst := by
  obtain ⟨ids, hids⟩ := identifiers_total {} seq sst hd
  obtain ⟨ids', hids'⟩ := identifiers_total {} seq' sst' hd'
  obtain ⟨rot, hl, _⟩ := legacy_canon_eq seq sst hd ids hids
  obtain ⟨rot', hl', _⟩ := legacy_canon_eq seq' sst' hd' ids' hids'
  rw [h] at hl; rw [h'] at hl'
  simp only [Except.ok.injEq, Prod.mk.injEq] at hl hl'
  rw [hl.1, hl'.1]
  exact canon_eq_iff seq seq' sst sst' hd hd' ids ids' hids hids'

end Dsd.C20L
