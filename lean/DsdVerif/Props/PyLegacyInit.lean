/-
`DSD_Complex.__init__` AS WRITTEN in dsdobjects/core/deprecated.py (translated by translator/pylegacy3.py into Gen/PyLegacyInit.lean) is
the model's `construct` (Model/LegacyFull.lean), for every class state whose `MEMORY` has pairwise different keys (the reading of
a Python dict as an item list; part of `C20F.LWF`), every start object `b` (the attributes of the new object are unspecified before
`__init__`), every description, name, prefix and flag:

  `py_init_eq`                     accepted: the whole state afterwards is `ofLR R' o` for the model's new class state and object;
                                   refused: the exception (`errOfR`: kind, and `existing` / `rotations` of a DSDDuplicationError) and
                                   the class variables `ID` / `NAMES` / `MEMORY` afterwards are the model's
  `py_refused_leaves_nothing`      (C20F.legacy_refused_leaves_nothing for the code as written) a construction that raises leaves `NAMES` and
                                   `MEMORY` exactly as they were; only `ID` may have been consumed.  This is what the seeded regression
                                   "MEMORY entry written before the duplicate-name guard" contradicts.
  `py_legacy_construct_eq`         (C20F.legacy_construct_eq for the code as written, explicit name) on corresponding registry states a construction of a
                                   well-formed description (1) creates: new `NAMES` / `MEMORY` entries appended, the object left as
                                   `registered …`, exactly when the current API creates; (2) raises DSDDuplicationError with the existing
                                   object's identity and `rot - ro` when the canonical form is registered; (3) raises DSDObjectsError on a
                                   taken name - and in (2), (3) the class state is untouched
  `py_canonicalForm_keeps_name`    `canonical_form` of the model keeps the object's name (the key of `NAMES`)
-/
import DsdVerif.Lemmas.PyLegacyInit2
import DsdVerif.Props.C20Full

namespace Dsd.PyLegacyInit
open Dsd Dsd.Gen Dsd.Lg Dsd.LgL Dsd.C02 Dsd.PyLegacy Dsd.PyLegacyReg

theorem py_canonicalForm_keeps_name (R : LReg) (o : LObj) : (o.canonicalForm R).1.name = o.name := canonicalForm_name R o

/-- **the constructor as written is the model's `construct`** -/
theorem py_init_eq (R : LReg) (b : LObj) (seq : List String) (sst : List Char) (name pfx : String) (mc : Bool)
    (hU : (R.MEMORY.map (·.1)).Nodup) :
    InitOk b ((py_DSD_ComplexR_init seq sst name pfx mc).exec (ofLR R b)) (construct R b.id seq sst (some name) pfx mc) :=
  exec_init R b seq sst name pfx mc hU

/-- **a refused construction leaves nothing behind in NAMES and MEMORY** - the code as written, every input -/
theorem py_refused_leaves_nothing (R : LReg) (b : LObj) (seq : List String) (sst : List Char) (name pfx : String) (mc : Bool)
    (hU : (R.MEMORY.map (·.1)).Nodup) (e : Err)
    (h : ((py_DSD_ComplexR_init seq sst name pfx mc).exec (ofLR R b)).1 = .error e) :
    ((py_DSD_ComplexR_init seq sst name pfx mc).exec (ofLR R b)).2.cls_NAMES = R.NAMES ∧
    ((py_DSD_ComplexR_init seq sst name pfx mc).exec (ofLR R b)).2.cls_MEMORY = (ofLR R b).cls_MEMORY ∧
    (((py_DSD_ComplexR_init seq sst name pfx mc).exec (ofLR R b)).2.cls_ID = R.ID ∨
      ((py_DSD_ComplexR_init seq sst name pfx mc).exec (ofLR R b)).2.cls_ID = R.ID + 1) := by
  have hi := py_init_eq R b seq sst name pfx mc hU
  rcases hc : construct R b.id seq sst (some name) pfx mc with ⟨R', r⟩
  rw [hc] at hi
  cases r with
  | ok o =>
    simp only [InitOk] at hi
    rw [hi] at h; cases h
  | error e0 =>
    obtain ⟨_, h2, h3, h4⟩ := hi
    obtain ⟨g1, g2, g3⟩ := C20F.legacy_refused_leaves_nothing R b.id seq sst (some name) pfx mc R' e0 hc
    refine ⟨by rw [h3, g1], ?_, ?_⟩
    · rw [h4]; show R'.MEMORY.map _ = R.MEMORY.map _; rw [g2]
    · rw [h2]; exact g3

/-- **`legacy_construct_eq` for the code as written** (explicit name, `memorycheck=True`) -/
theorem py_legacy_construct_eq (R : LReg) (r : Reg CKey) (hL : C20F.LWF R) (hwf : C01.WF r) (hk : KeysAreOrbit r)
    (hcorr : C20F.Corr R r) (seq : List String) (sst : List Char) (hd : Descr seq sst) (nm : String) (hnm : nm ≠ "") (b : LObj)
    (hfresh : ∀ o ∈ r.objs, o.id ≠ b.id) (pfx : String) :
    ∃ c rot, legacyCanon seq sst = .ok (c, rot) ∧
      -- 1. new: created, registered under its name and canonical form, left in its representation
      (R.MEMORY.lookup c = none → R.NAMES.lookup nm = none →
        (py_DSD_ComplexR_init seq sst nm pfx true).exec (ofLR R b) =
          (.ok (), ofLR { R with NAMES := R.NAMES ++ [(nm, c)], MEMORY := R.MEMORY ++ [(c, registered b.id nm seq sst true c rot)] }
            (registered b.id nm seq sst true c rot)) ∧
        (complexRequest pfx r b.id { seq := some seq, sst := sst, name := some nm }).2.1 = .ret b.id true) ∧
      -- 2. duplicate: DSDDuplicationError(existing, rotations), nothing changed
      (∀ ob, R.MEMORY.lookup c = some ob → ∃ ro, ob.rotations = some ro ∧
        ((py_DSD_ComplexR_init seq sst nm pfx true).exec (ofLR R b)).1 = .error (Py.LegR_dupErr ob.id ((rot : Int) - (ro : Int))) ∧
        ((py_DSD_ComplexR_init seq sst nm pfx true).exec (ofLR R b)).2.cls_NAMES = R.NAMES ∧
        ((py_DSD_ComplexR_init seq sst nm pfx true).exec (ofLR R b)).2.cls_MEMORY = (ofLR R b).cls_MEMORY ∧
        (complexRequest pfx r b.id { seq := some seq, sst := sst, name := some nm }).1 = r) ∧
      -- 3. name clash: DSDObjectsError, nothing changed
      (R.MEMORY.lookup c = none → (R.NAMES.lookup nm).isSome = true →
        ((py_DSD_ComplexR_init seq sst nm pfx true).exec (ofLR R b)).1 = .error (.fault "DSDObjectsError") ∧
        ((py_DSD_ComplexR_init seq sst nm pfx true).exec (ofLR R b)).2.cls_NAMES = R.NAMES ∧
        ((py_DSD_ComplexR_init seq sst nm pfx true).exec (ofLR R b)).2.cls_MEMORY = (ofLR R b).cls_MEMORY ∧
        (complexRequest pfx r b.id { seq := some seq, sst := sst, name := some nm }).2.1 = .singletonErr none) := by
  obtain ⟨c, rot, hcan, _, h1, h2, h3⟩ := C20F.legacy_construct_eq R r hL hwf hk hcorr seq sst hd nm b.id hfresh pfx
  have hi := py_init_eq R b seq sst nm pfx true hL.memKeys
  rw [construct_named R b.id seq sst nm pfx true hnm] at hi
  refine ⟨c, rot, hcan, ?_, ?_, ?_⟩
  · intro hm hn
    obtain ⟨g1, g2, _⟩ := h1 hm hn
    rw [g1] at hi
    exact ⟨hi, g2⟩
  · intro ob hob
    obtain ⟨ro, g0, g1, _, g3, _⟩ := h2 ob hob
    rw [g1] at hi
    obtain ⟨i1, _, i3, i4⟩ := hi
    exact ⟨ro, g0, i1, i3, i4, g3⟩
  · intro hm hn
    obtain ⟨g1, _, g3⟩ := h3 hm hn
    rw [g1] at hi
    obtain ⟨i1, _, i3, i4⟩ := hi
    exact ⟨i1, i3, i4, g3⟩

#print axioms py_canonicalForm_keeps_name
#print axioms py_init_eq
#print axioms py_refused_leaves_nothing
#print axioms py_legacy_construct_eq

end Dsd.PyLegacyInit
