import DsdVerif.Props.C13Layout
import DsdVerif.Lemmas.PilTabs
import DsdVerif.Lemmas.PilKernelW

namespace Dsd.C13
open Dsd Dsd.PP Dsd.Gen Dsd.PP.Tabs
open Dsd.Pil (StmtText StmtTextL StmtTextT BLine LineSep LItem blines litemsText)

/-! C13, the layout clause "arbitrary spaces and TABS".  `parseDoc` expands tabs first (`expandTabs`: a tab becomes
1–8 blanks up to the next multiple of 8, the column restarts after LF and CR).  The round-trip theorems quantify over
arbitrary blank counts; a separator made of blanks and tabs expands to blanks — at least one when it is non-empty —
so wherever a theorem has `blanks k` an arbitrary blank/tab separator `w` may stand (`Tabs.IsSep w`; non-empty where
the theorem has `blanks (a + 1)`).  `Pil.StmtTextT s t`: `s` expands (at column 0, where every statement starts) to a
statement text `s'` with `StmtTextL s' t`. -/

/-- from a family of statement texts over all blank counts to the texts with blank/tab separators -/
theorem stmtTextT_of_template (tm : List Piece) (htok : ToksOK tm) (t : Tree)
    (hfam : ∀ ks, CountsOK tm ks → StmtTextL (render tm ks) t) (ws : List (List Char)) (hws : SepsOK tm ws) :
    StmtTextT (renderW tm ws) t := by
  obtain ⟨ks, col', hk, hex⟩ := expand_template tm htok ws hws 0
  exact ⟨render tm ks, fun rest => ⟨col', hex rest⟩, hfam ks hk⟩

theorem notab_star (st : Bool) : '\t' ∉ star st := by cases st <;> decide

/-- a blank/tab separator may follow every statement text that tolerates blanks -/
theorem StmtTextB.tabsTail {s : List Char} {t : Tree} (h : StmtTextB s t) (w : List Char) (hw : IsSep w) :
    StmtTextT (s ++ w) t := by
  have := stmtTextT_of_template [.tok s, .sep false] ⟨h.notab, trivial⟩ t
    (by
      intro ks hk
      rcases ks with _ | ⟨k, _ | ⟨k2, ks⟩⟩ <;> simp [CountsOK] at hk
      have := h.blanks k
      simpa [render, C13.blanks] using this)
    [w] ⟨hw, by simp, rfl⟩
  simpa [renderW] using this

/-- **domain-length statements with blank/tab separators** -/
theorem stmtTextT_dl_domain (kw : List Char) (hkw : kw = "length".toList ∨ kw = "domain".toList ∨ kw = "sequence".toList)
    (name d : List Char) (st : Bool) (sign : Char) (hs : sign = '=' ∨ sign = ':')
    (hn : Ident name) (hd : Digits d) (w1 w2 w3 w4 : List Char)
    (h1 : IsSep w1) (hne : w1 ≠ []) (h2 : IsSep w2) (h3 : IsSep w3) (h4 : IsSep w4) :
    StmtTextT (kw ++ w1 ++ name ++ star st ++ w2 ++ [sign] ++ w3 ++ d ++ w4)
      (.grp [.tok "dl-domain", .tok (String.ofList (name ++ star st)), .tok (String.ofList d)]) := by
  have hkt : '\t' ∉ kw := by rcases hkw with e | e | e <;> rw [e] <;> decide
  have hnt : '\t' ∉ name ++ star st := by
    have := Pil.notab_ident name hn.2; have := notab_star st; simp [*]
  have hsg : '\t' ∉ [sign] := by rcases hs with rfl | rfl <;> decide
  have := stmtTextT_of_template
    [.tok kw, .sep true, .tok (name ++ star st), .sep false, .tok [sign], .sep false, .tok d, .sep false]
    ⟨hkt, hnt, hsg, Pil.notab_of_nums d hd.2, trivial⟩ _
    (by
      intro ks hk
      rcases ks with _ | ⟨k1, _ | ⟨k2, _ | ⟨k3, _ | ⟨k4, _ | ⟨k5, ks⟩⟩⟩⟩⟩ <;> simp [CountsOK] at hk
      obtain ⟨a, rfl⟩ : ∃ a, k1 = a + 1 := ⟨k1 - 1, by omega⟩
      have := (stmtTextB_dl_domain kw hkw name d st sign hs hn hd a k2 k3 k4).toL
      simpa [render, blanks, List.append_assoc] using this)
    [w1, w2, w3, w4] ⟨h1, fun _ => hne, h2, by simp, h3, by simp, h4, by simp, rfl⟩
  simpa [renderW, List.append_assoc] using this

theorem stmtTextT_dl_domain_dtype (kw : List Char) (hkw : kw = "length".toList ∨ kw = "domain".toList)
    (name : List Char) (st : Bool) (dt : List Char) (hdt : dt = "short".toList ∨ dt = "long".toList)
    (sign : Char) (hs : sign = '=' ∨ sign = ':') (hn : Ident name) (w1 w2 w3 w4 : List Char)
    (h1 : IsSep w1) (hne : w1 ≠ []) (h2 : IsSep w2) (h3 : IsSep w3) (h4 : IsSep w4) :
    StmtTextT (kw ++ w1 ++ name ++ star st ++ w2 ++ [sign] ++ w3 ++ dt ++ w4)
      (.grp [.tok "dl-domain", .tok (String.ofList (name ++ star st)), .tok (String.ofList dt)]) := by
  have hkt : '\t' ∉ kw := by rcases hkw with e | e <;> rw [e] <;> decide
  have hdtt : '\t' ∉ dt := by rcases hdt with e | e <;> rw [e] <;> decide
  have hnt : '\t' ∉ name ++ star st := by
    have := Pil.notab_ident name hn.2; have := notab_star st; simp [*]
  have hsg : '\t' ∉ [sign] := by rcases hs with rfl | rfl <;> decide
  have := stmtTextT_of_template
    [.tok kw, .sep true, .tok (name ++ star st), .sep false, .tok [sign], .sep false, .tok dt, .sep false]
    ⟨hkt, hnt, hsg, hdtt, trivial⟩ _
    (by
      intro ks hk
      rcases ks with _ | ⟨k1, _ | ⟨k2, _ | ⟨k3, _ | ⟨k4, _ | ⟨k5, ks⟩⟩⟩⟩⟩ <;> simp [CountsOK] at hk
      obtain ⟨a, rfl⟩ : ∃ a, k1 = a + 1 := ⟨k1 - 1, by omega⟩
      have := (stmtTextB_dl_domain_dtype kw hkw name st dt hdt sign hs hn a k2 k3 k4).toL
      simpa [render, blanks, List.append_assoc] using this)
    [w1, w2, w3, w4] ⟨h1, fun _ => hne, h2, by simp, h3, by simp, h4, by simp, rfl⟩
  simpa [renderW, List.append_assoc] using this

/-- **sequence-constraint statements with blank/tab separators** -/
theorem stmtTextT_sl_domain (name con : List Char) (st : Bool) (sign : Char) (hs : sign = '=' ∨ sign = ':')
    (hn : Ident name) (hc : Letters con) (w1 w2 w3 w4 : List Char)
    (h1 : IsSep w1) (hne : w1 ≠ []) (h2 : IsSep w2) (h3 : IsSep w3) (h4 : IsSep w4) :
    StmtTextT ("sequence".toList ++ w1 ++ name ++ star st ++ w2 ++ [sign] ++ w3 ++ con ++ w4)
      (.grp [.tok "sl-domain", .tok (String.ofList (name ++ star st)), .tok (String.ofList con)]) := by
  have hnt : '\t' ∉ name ++ star st := by
    have := Pil.notab_ident name hn.2; have := notab_star st; simp [*]
  have hsg : '\t' ∉ [sign] := by rcases hs with rfl | rfl <;> decide
  have := stmtTextT_of_template
    [.tok "sequence".toList, .sep true, .tok (name ++ star st), .sep false, .tok [sign], .sep false, .tok con,
      .sep false]
    ⟨by decide, hnt, hsg, Pil.notab_of_alphas con hc.2, trivial⟩ _
    (by
      intro ks hk
      rcases ks with _ | ⟨k1, _ | ⟨k2, _ | ⟨k3, _ | ⟨k4, _ | ⟨k5, ks⟩⟩⟩⟩⟩ <;> simp [CountsOK] at hk
      obtain ⟨a, rfl⟩ : ∃ a, k1 = a + 1 := ⟨k1 - 1, by omega⟩
      have := (stmtTextB_sl_domain name con st sign hs hn hc a k2 k3 k4).toL
      simpa [render, blanks, List.append_assoc] using this)
    [w1, w2, w3, w4] ⟨h1, fun _ => hne, h2, by simp, h3, by simp, h4, by simp, rfl⟩
  simpa [renderW, List.append_assoc] using this

theorem stmtTextT_sl_domain_len (name con d : List Char) (st : Bool) (s1 s2 : Char) (hs1 : s1 = '=' ∨ s1 = ':')
    (hs2 : s2 = '=' ∨ s2 = ':') (hn : Ident name) (hc : Letters con) (hd : Digits d) (w1 w2 w3 w4 w5 w6 : List Char)
    (h1 : IsSep w1) (hne : w1 ≠ []) (h2 : IsSep w2) (h3 : IsSep w3) (h4 : IsSep w4) (h5 : IsSep w5) (h6 : IsSep w6) :
    StmtTextT ("sequence".toList ++ w1 ++ name ++ star st ++ w2 ++ [s1] ++ w3 ++ con ++ w4 ++ [s2] ++ w5 ++ d ++ w6)
      (.grp [.tok "sl-domain", .tok (String.ofList (name ++ star st)), .tok (String.ofList con),
        .tok (String.ofList d)]) := by
  have hnt : '\t' ∉ name ++ star st := by
    have := Pil.notab_ident name hn.2; have := notab_star st; simp [*]
  have hsg1 : '\t' ∉ [s1] := by rcases hs1 with rfl | rfl <;> decide
  have hsg2 : '\t' ∉ [s2] := by rcases hs2 with rfl | rfl <;> decide
  have := stmtTextT_of_template
    [.tok "sequence".toList, .sep true, .tok (name ++ star st), .sep false, .tok [s1], .sep false, .tok con,
      .sep false, .tok [s2], .sep false, .tok d, .sep false]
    ⟨by decide, hnt, hsg1, Pil.notab_of_alphas con hc.2, hsg2, Pil.notab_of_nums d hd.2, trivial⟩ _
    (by
      intro ks hk
      rcases ks with _ | ⟨k1, _ | ⟨k2, _ | ⟨k3, _ | ⟨k4, _ | ⟨k5, _ | ⟨k6, _ | ⟨k7, ks⟩⟩⟩⟩⟩⟩⟩ <;>
        simp [CountsOK] at hk
      obtain ⟨a, rfl⟩ : ∃ a, k1 = a + 1 := ⟨k1 - 1, by omega⟩
      have := (stmtTextB_sl_domain_len name con d st s1 s2 hs1 hs2 hn hc hd a k2 k3 k4 k5 k6).toL
      simpa [render, blanks, List.append_assoc] using this)
    [w1, w2, w3, w4, w5, w6]
    ⟨h1, fun _ => hne, h2, by simp, h3, by simp, h4, by simp, h5, by simp, h6, by simp, rfl⟩
  simpa [renderW, List.append_assoc] using this

theorem notab_domName (d : List Char) (h : DomName d) : '\t' ∉ d := Pil.notab_dom d (domName_isDom d h)

theorem notab_spaced (doms : List (List Char)) (h : ∀ d ∈ doms, DomName d) : '\t' ∉ spaced doms := by
  cases doms with
  | nil => simp [spaced]
  | cons d ds =>
    rw [spaced_eq]
    have h1 := notab_domName d (h d (by simp))
    have h2 := Pil.notab_spDoms ds (fun x hx => domName_isDom x (h x (List.mem_cons_of_mem _ hx)))
    simp [h1, h2]

/-- **strand / sup-sequence statements with blank/tab separators** (the domains of the list are separated by single
    blanks, as in `comp_domain_rt`) -/
theorem stmtTextT_comp_domain (kw : List Char) (hkw : kw = "strand".toList ∨ kw = "sup-sequence".toList)
    (name : List Char) (doms : List (List Char)) (sign : Char) (hs : sign = '=' ∨ sign = ':')
    (hn : Ident name) (hd : doms ≠ [] ∧ ∀ d ∈ doms, DomName d) (w1 w2 w3 w4 : List Char)
    (h1 : IsSep w1) (hne : w1 ≠ []) (h2 : IsSep w2) (h3 : IsSep w3) (h4 : IsSep w4) :
    StmtTextT (kw ++ w1 ++ name ++ w2 ++ [sign] ++ w3 ++ spaced doms ++ w4)
      (.grp [.tok "composite-domain", tokOf name, .grp (doms.map tokOf)]) := by
  have hkt : '\t' ∉ kw := by rcases hkw with e | e <;> rw [e] <;> decide
  have hsg : '\t' ∉ [sign] := by rcases hs with rfl | rfl <;> decide
  have := stmtTextT_of_template
    [.tok kw, .sep true, .tok name, .sep false, .tok [sign], .sep false, .tok (spaced doms), .sep false]
    ⟨hkt, Pil.notab_ident name hn.2, hsg, notab_spaced doms hd.2, trivial⟩ _
    (by
      intro ks hk
      rcases ks with _ | ⟨k1, _ | ⟨k2, _ | ⟨k3, _ | ⟨k4, _ | ⟨k5, ks⟩⟩⟩⟩⟩ <;> simp [CountsOK] at hk
      obtain ⟨a, rfl⟩ : ∃ a, k1 = a + 1 := ⟨k1 - 1, by omega⟩
      have := (stmtTextB_comp_domain kw hkw name doms sign hs hn hd a k2 k3 k4).toL
      simpa [render, blanks, List.append_assoc] using this)
    [w1, w2, w3, w4] ⟨h1, fun _ => hne, h2, by simp, h3, by simp, h4, by simp, rfl⟩
  simpa [renderW, List.append_assoc] using this

theorem notab_commaSep (mem : List (List Char)) (h : ∀ m ∈ mem, Ident m) : '\t' ∉ commaSep mem := by
  cases mem with
  | nil => simp [commaSep]
  | cons d ds =>
    rw [commaSep_eq]
    have h1 := Pil.notab_ident d (h d (by simp)).2
    have h2 := Pil.notab_csMems ds (fun x hx => ident_isId x (h x (List.mem_cons_of_mem _ hx)))
    simp [h1, h2]

/-- **resting macrostates with blank/tab separators** (members separated by ", " as in `resting_rt`) -/
theorem stmtTextT_resting (kw : List Char) (hkw : kw = "state".toList ∨ kw = "macrostate".toList)
    (name : List Char) (mem : List (List Char)) (hn : Ident name) (hm : mem ≠ [] ∧ ∀ m ∈ mem, Ident m)
    (w1 w2 w3 w4 : List Char)
    (h1 : IsSep w1) (hne : w1 ≠ []) (h2 : IsSep w2) (h3 : IsSep w3) (h4 : IsSep w4) :
    StmtTextT (kw ++ w1 ++ name ++ w2 ++ ['='] ++ w3 ++ ['['] ++ commaSep mem ++ [']'] ++ w4)
      (.grp [.tok "resting-macrostate", tokOf name, .grp (mem.map tokOf)]) := by
  have hkt : '\t' ∉ kw := by rcases hkw with e | e <;> rw [e] <;> decide
  have hmt : '\t' ∉ ['['] ++ commaSep mem ++ [']'] := by
    have := notab_commaSep mem hm.2
    simp [this]
  have := stmtTextT_of_template
    [.tok kw, .sep true, .tok name, .sep false, .tok ['='], .sep false, .tok (['['] ++ commaSep mem ++ [']']),
      .sep false]
    ⟨hkt, Pil.notab_ident name hn.2, by decide, hmt, trivial⟩ _
    (by
      intro ks hk
      rcases ks with _ | ⟨k1, _ | ⟨k2, _ | ⟨k3, _ | ⟨k4, _ | ⟨k5, ks⟩⟩⟩⟩⟩ <;> simp [CountsOK] at hk
      obtain ⟨a, rfl⟩ : ∃ a, k1 = a + 1 := ⟨k1 - 1, by omega⟩
      have := (stmtTextB_resting kw hkw name mem hn hm a k2 k3 k4).toL
      simpa [render, blanks, List.append_assoc] using this)
    [w1, w2, w3, w4] ⟨h1, fun _ => hne, h2, by simp, h3, by simp, h4, by simp, rfl⟩
  simpa [renderW, List.append_assoc] using this

theorem notab_dotBracket (db : List Char) (h : DotBracket db) : '\t' ∉ db := by
  intro hm
  rcases h.2 _ hm with e | e | e | e <;> revert e <;> decide

/-- **the `complex` form with blank/tab separators** before the name and before the assignment sign -/
theorem stmtTextT_complex (name : List Char) (strands : List (List Char)) (db : List Char) (sign : Char)
    (hs : sign = '=' ∨ sign = ':')
    (hn : Ident name) (hst : strands ≠ [] ∧ ∀ s ∈ strands, DomName s) (hdb : DotBracket db) (w1 w2 : List Char)
    (h1 : IsSep w1) (hne : w1 ≠ []) (h2 : IsSep w2) :
    StmtTextT ("complex".toList ++ w1 ++ name ++ w2 ++ [sign] ++ ['\n'] ++ spaced strands ++ ['\n'] ++ db)
      (.grp [.tok "strand-complex", tokOf name, .grp (strands.map tokOf), tokOf db]) := by
  have hsg : '\t' ≠ sign := by rcases hs with rfl | rfl <;> decide
  have ht : '\t' ∉ [sign] ++ ['\n'] ++ spaced strands ++ ['\n'] ++ db := by
    have a1 := notab_spaced strands hst.2
    have a2 := notab_dotBracket db hdb
    simp [a1, a2, hsg]
  have := stmtTextT_of_template
    [.tok "complex".toList, .sep true, .tok name, .sep false,
      .tok ([sign] ++ ['\n'] ++ spaced strands ++ ['\n'] ++ db)]
    ⟨by decide, Pil.notab_ident name hn.2, ht, trivial⟩ _
    (by
      intro ks hk
      rcases ks with _ | ⟨k1, _ | ⟨k2, _ | ⟨k3, ks⟩⟩⟩ <;> simp [CountsOK] at hk
      obtain ⟨a, rfl⟩ : ∃ a, k1 = a + 1 := ⟨k1 - 1, by omega⟩
      have := stmtTextL_complex name strands db sign hs hn hst hdb a k2
      simpa [render, blanks, List.append_assoc] using this)
    [w1, w2] ⟨h1, fun _ => hne, h2, by simp, rfl⟩
  simpa [renderW, List.append_assoc] using this

/-- **the `structure` form with a blank/tab separator** after the keyword -/
theorem stmtTextT_structure (name : List Char) (strands : List (List Char)) (db : List Char) (s1 s2 : Char)
    (hs1 : s1 = '=' ∨ s1 = ':') (hs2 : s2 = '=' ∨ s2 = ':')
    (hn : Ident name) (hst : strands ≠ [] ∧ ∀ s ∈ strands, DomName s) (hdb : DotBracket db) (w1 : List Char)
    (h1 : IsSep w1) (hne : w1 ≠ []) :
    StmtTextT ("structure".toList ++ w1 ++ name ++ [' ', s1, ' '] ++ plusSep strands ++ [' ', s2, ' '] ++ db)
      (.grp [.tok "strand-complex", tokOf name, .grp (strands.map tokOf), tokOf db]) := by
  have hsg1 : '\t' ≠ s1 := by rcases hs1 with rfl | rfl <;> decide
  have hsg2 : '\t' ≠ s2 := by rcases hs2 with rfl | rfl <;> decide
  have hps : '\t' ∉ plusSep strands := by
    obtain ⟨hst1, hst2⟩ := hst
    cases strands with
    | nil => exact absurd rfl hst1
    | cons d ds =>
      rw [plusSep_eq]
      have a1 := notab_domName d (hst2 d (by simp))
      have a2 := Pil.notab_psList ds (fun x hx => notab_domName x (hst2 x (List.mem_cons_of_mem _ hx)))
      simp [a1, a2]
  have ht : '\t' ∉ name ++ [' ', s1, ' '] ++ plusSep strands ++ [' ', s2, ' '] ++ db := by
    have a1 := Pil.notab_ident name hn.2
    have a2 := notab_dotBracket db hdb
    simp [a1, a2, hps, hsg1, hsg2]
  have := stmtTextT_of_template
    [.tok "structure".toList, .sep true,
      .tok (name ++ [' ', s1, ' '] ++ plusSep strands ++ [' ', s2, ' '] ++ db)]
    ⟨by decide, ht, trivial⟩ _
    (by
      intro ks hk
      rcases ks with _ | ⟨k1, _ | ⟨k2, ks⟩⟩ <;> simp [CountsOK] at hk
      obtain ⟨a, rfl⟩ : ∃ a, k1 = a + 1 := ⟨k1 - 1, by omega⟩
      have := stmtTextL_structure name strands db s1 s2 hs1 hs2 hn hst hdb a
      simpa [render, blanks, List.append_assoc] using this)
    [w1] ⟨h1, fun _ => hne, rfl⟩
  simpa [renderW, List.append_assoc] using this

theorem notab_plusSep_ident (xs : List (List Char)) (h : xs ≠ [] ∧ ∀ x ∈ xs, Ident x) : '\t' ∉ plusSep xs := by
  obtain ⟨h1, h2⟩ := h
  cases xs with
  | nil => exact absurd rfl h1
  | cons d ds =>
    rw [plusSep_eq]
    have a1 := Pil.notab_ident d (h2 d (by simp)).2
    have a2 := Pil.notab_psList ds (fun x hx => Pil.notab_ident x (h2 x (List.mem_cons_of_mem _ hx)).2)
    simp [a1, a2]

/-- **reactions without an information box, with a blank/tab separator** after the keyword and at the end -/
theorem stmtTextT_reaction_plain (kw : List Char) (hkw : kw = "reaction".toList ∨ kw = "kinetic".toList)
    (rs ps : List (List Char)) (hr : rs ≠ [] ∧ ∀ r ∈ rs, Ident r) (hp : ps ≠ [] ∧ ∀ p ∈ ps, Ident p)
    (w1 w2 : List Char) (h1 : IsSep w1) (hne : w1 ≠ []) (h2 : IsSep w2) :
    StmtTextT (kw ++ w1 ++ plusSep rs ++ " -> ".toList ++ plusSep ps ++ w2)
      (.grp [.tok "reaction", .grp [], .grp (rs.map tokOf), .grp (ps.map tokOf)]) := by
  have hkt : '\t' ∉ kw := by rcases hkw with e | e <;> rw [e] <;> decide
  have ht : '\t' ∉ plusSep rs ++ " -> ".toList ++ plusSep ps := by
    have a1 := notab_plusSep_ident rs hr
    have a2 := notab_plusSep_ident ps hp
    simp [a1, a2]
  have := stmtTextT_of_template
    [.tok kw, .sep true, .tok (plusSep rs ++ " -> ".toList ++ plusSep ps), .sep false]
    ⟨hkt, ht, trivial⟩ _
    (by
      intro ks hk
      rcases ks with _ | ⟨k1, _ | ⟨k2, _ | ⟨k3, ks⟩⟩⟩ <;> simp [CountsOK] at hk
      obtain ⟨a, rfl⟩ : ∃ a, k1 = a + 1 := ⟨k1 - 1, by omega⟩
      have := (stmtTextB_reaction_plain kw hkw rs ps hr hp a).blanks k2
      simpa [render, blanks, List.append_assoc] using this)
    [w1, w2] ⟨h1, fun _ => hne, h2, by simp, rfl⟩
  simpa [renderW, List.append_assoc] using this

/-! ### kernel complexes: any blanks, and tabs, also INSIDE the pattern

`kernel_rt` treats the output of `kernel_string` — exactly one blank between the words.  Lemmas/PilKernelW.lean
generalises the kernel lemmas to any number `≥ 1` of blanks before `=` and before every word of the pattern. -/

/-- the kernel pattern of `(seq, sst)` with `ks[i] + 1` blanks before the `i`-th word -/
def kernelSpaced (seq : List String) (sst : List Char) (ks : List Nat) : List Char :=
  Pil.spW ((seq.zip sst).zip ks)

/-- with no extra blanks this is `kernel_string` (after its leading blank) -/
theorem kernelSpaced_zero (seq : List String) (sst : List Char) (h : seq.zip sst ≠ []) :
    kernelSpaced seq sst (List.replicate (seq.zip sst).length 0) = ' ' :: (kernelString seq sst).toList := by
  rw [Pil.kernelString_sp seq sst h]
  unfold kernelSpaced
  generalize seq.zip sst = L
  induction L with
  | nil => rfl
  | cons e R ih =>
    rw [List.length_cons, List.replicate_succ, List.zip_cons_cons, Pil.spW_cons, Pil.sp_cons, ih]
    rfl

theorem legalEnt_zip (seq : List String) (sst : List Char) (hl : LegalNames seq sst) :
    ∀ e ∈ seq.zip sst, Pil.LegalEnt e := by
  obtain ⟨_, hleg⟩ := hl
  intro e he
  obtain ⟨i, hi⟩ := List.mem_iff_getElem?.mp he
  rw [List.getElem?_zip_eq_some] at hi
  obtain ⟨l1, l2, l3⟩ := hleg i e.1 e.2 hi.1 hi.2
  refine ⟨l1, ?_, l3⟩
  intro hc
  obtain ⟨base, st, hb, hbase⟩ := l2 hc
  obtain ⟨bc, bm, rfl, h1, h2⟩ := Pil.cons_of_class base _ hbase
  exact ⟨bc, bm, st, hb, h1, h2⟩

/-- **kernel complexes with any amount of blanks** before `=` and before every word of the pattern -/
theorem stmtTextB_kernel_spaced (name : List Char) (seq : List String) (sst : List Char) (toks : List Tree)
    (hn : Ident name) (hl : LegalNames seq sst) (hne : sst ≠ []) (ht : kernelTokens seq sst = some toks)
    (a : Nat) (ks : List Nat) (hks : ks.length = sst.length) :
    StmtTextB (name ++ blanks (a + 1) ++ ['='] ++ kernelSpaced seq sst ks)
      (.grp [.tok "kernel-complex", tokOf name, .grp toks]) := by
  obtain ⟨nc, m, rfl, hnc, hm, hL, _, hp, _⟩ := kernel_prep name seq sst toks hn hl hne ht []
  have hlen : (seq.zip sst).length = sst.length := by
    rw [List.length_zip, hl.1]; simp
  have hmap : ((seq.zip sst).zip ks).map (·.1) = seq.zip sst := by
    apply List.map_fst_zip
    rw [hlen, hks]
    exact Nat.le_refl _
  have hLW : (seq.zip sst).zip ks ≠ [] := by
    intro e
    rw [e] at hmap
    exact hL hmap.symm
  have hlenW : ((seq.zip sst).zip ks).length = (seq.zip sst).length := by
    have := congrArg List.length hmap
    rw [List.length_map] at this
    exact this
  have hlegW : ∀ e ∈ (seq.zip sst).zip ks, Pil.LegalEnt e.1 := by
    intro e he
    apply legalEnt_zip seq sst hl
    rw [← hmap]
    exact List.mem_map_of_mem he
  have hpW : Pil.pItems (2 * ((seq.zip sst).zip ks).length + 1) (((seq.zip sst).zip ks).map (·.1)) = some (toks, []) := by
    rw [hmap, hlenW]; exact hp
  obtain ⟨f1, f2⟩ := Pil.spW_facts _ hlegW
  have hnm := notab_cons nc m hnc hm
  refine stmtTextB_of _ _ (8 * ((seq.zip sst).zip ks).length + 70) nc
    (fun X => Pil.kernelTextW nc m a ((seq.zip sst).zip ks) X)
    (by intro X; simp [blanks, kernelSpaced, Pil.kernelTextW, List.append_assoc])
    rfl (startCh_ident nc hnc) ?_ ?_ ?_
  · unfold Pil.kernelTextW
    simp only [List.mem_cons, List.mem_append, not_or]
    simp only [List.mem_cons, not_or] at hnm
    exact ⟨hnm.1, hnm.2, Pil.notab_replicate _, by decide, f2, List.not_mem_nil⟩
  · unfold Pil.kernelTextW
    simp only [List.length_cons, List.length_append, List.length_nil]
    omega
  · intro X NE p hX heol
    exact Pil.kernel_stmt_tailW nc m a _ toks X NE p hnc hm hLW hlegW hpW hX heol

/-- the kernel pattern with a separator before every word -/
def kernelTabbed (seq : List String) (sst : List Char) (seps : List (List Char)) : List Char :=
  ((seps.zip (seq.zip sst)).map (fun x => x.1 ++ Pil.word x.2)).flatten

theorem expand_kernelTabbed (L : List Pil.Ent) (hleg : ∀ e ∈ L, Pil.LegalEnt e) :
    ∀ (seps : List (List Char)), seps.length = L.length → (∀ w ∈ seps, IsSep w ∧ w ≠ []) → ∀ col,
      ∃ ks col', ks.length = L.length ∧
        ∀ rest, expandTabs (((seps.zip L).map (fun x => x.1 ++ Pil.word x.2)).flatten ++ rest) col =
          Pil.spW (L.zip ks) ++ expandTabs rest col' := by
  induction L with
  | nil =>
    intro seps _ _ col
    exact ⟨[], col, rfl, fun rest => by simp [Pil.spW]⟩
  | cons e R ih =>
    intro seps hlen hs col
    cases seps with
    | nil => simp at hlen
    | cons w ws =>
      obtain ⟨hw1, hw2⟩ := hs w (by simp)
      obtain ⟨n, col1, hn, hex1⟩ := expandTabs_sep w hw1 col
      have hn1 : 1 ≤ n := by
        have : 0 < w.length := List.length_pos_iff.mpr hw2
        omega
      obtain ⟨k, rfl⟩ : ∃ k, n = k + 1 := ⟨n - 1, by omega⟩
      have hwt := (Pil.word_facts e (hleg e (by simp))).2
      obtain ⟨ks, col', hk, hex⟩ := ih (fun x hx => hleg x (List.mem_cons_of_mem _ hx)) ws
        (by simpa using hlen) (fun x hx => hs x (List.mem_cons_of_mem _ hx)) (colAfter (Pil.word e) col1)
      refine ⟨k :: ks, col', by simp [hk], fun rest => ?_⟩
      simp only [List.zip_cons_cons, List.map_cons, List.flatten_cons, List.append_assoc]
      rw [hex1, expandTabs_tok (Pil.word e) hwt, hex rest, Pil.spW_cons]
      simp [List.append_assoc]

/-- **kernel complexes with blank/tab separators everywhere**: before `=`, before every word of the pattern
    (all non-empty) and at the end -/
theorem stmtTextT_kernel (name : List Char) (seq : List String) (sst : List Char) (toks : List Tree)
    (hn : Ident name) (hl : LegalNames seq sst) (hne : sst ≠ []) (ht : kernelTokens seq sst = some toks)
    (w0 : List Char) (seps : List (List Char)) (wEnd : List Char)
    (h0 : IsSep w0) (hne0 : w0 ≠ []) (hlen : seps.length = sst.length) (hseps : ∀ w ∈ seps, IsSep w ∧ w ≠ [])
    (hEnd : IsSep wEnd) :
    StmtTextT (name ++ w0 ++ ['='] ++ kernelTabbed seq sst seps ++ wEnd)
      (.grp [.tok "kernel-complex", tokOf name, .grp toks]) := by
  have hzl : (seq.zip sst).length = sst.length := by
    rw [List.length_zip, hl.1]; simp
  have hnt := Pil.notab_ident name hn.2
  -- expansion, piece by piece
  obtain ⟨n0, c1, hn0, hex0⟩ := expandTabs_sep w0 h0 (colAfter name 0)
  have hn01 : 1 ≤ n0 := by
    have : 0 < w0.length := List.length_pos_iff.mpr hne0
    omega
  obtain ⟨a, rfl⟩ : ∃ a, n0 = a + 1 := ⟨n0 - 1, by omega⟩
  obtain ⟨ks, c2, hks, hexK⟩ := expand_kernelTabbed (seq.zip sst) (legalEnt_zip seq sst hl) seps
    (by rw [hlen, hzl]) hseps (colAfter ['='] c1)
  obtain ⟨e, c3, _, hexE⟩ := expandTabs_sep wEnd hEnd c2
  refine ⟨name ++ blanks (a + 1) ++ ['='] ++ kernelSpaced seq sst ks ++ blanks e, fun rest => ⟨c3, ?_⟩,
    (stmtTextB_kernel_spaced name seq sst toks hn hl hne ht a ks (by rw [hks, hzl])).blanks e⟩
  simp only [List.append_assoc, kernelTabbed, kernelSpaced, blanks]
  rw [expandTabs_tok name hnt, hex0, expandTabs_tok ['='] (by decide), hexK, hexE]

/-! ### documents -/

/-- **documents whose statements contain tabs**: as `document_layout_rt` (statement-free lines `pre`, separators in
    any line-level layout, an unterminated last line `fin`), with statements `StmtTextT` — built from tab-free tokens
    and blank/tab separators.  Every statement starts at column 0 because it follows a line feed. -/
theorem document_tabs_rt (pre : List BLine) (stmts : List LItem) (fin : BLine) (hne : stmts ≠ [])
    (hpre : ∀ b ∈ pre, b.OK) (h : ∀ x ∈ stmts, StmtTextT x.1 x.2.1 ∧ x.2.2.OK) (hfin : fin.OK) :
    parseDoc pil_env pil_grammar
      (String.ofList (pre.flatMap BLine.text ++ (stmts.flatMap (fun x => x.1 ++ x.2.2.text) ++ fin.body))) =
    some (stmts.map (fun x => x.2.1)) :=
  Pil.document_tabs_parse pre hpre stmts hne h fin.body (Pil.skipIgn_body fin hfin) (Pil.notab_bline fin hfin)

/-- a single statement with tabs, terminated by a line feed -/
theorem stmt_tabs_rt (s : List Char) (t : Tree) (h : StmtTextT s t) :
    parseDoc pil_env pil_grammar (String.ofList (s ++ ['\n'])) = some [t] := by
  have := document_tabs_rt [] [(s, t, ⟨⟨[], none⟩, []⟩)] ⟨[], none⟩ (by simp) (by simp)
    (by
      intro x hx
      simp only [List.mem_cons, List.not_mem_nil, or_false] at hx
      subst hx
      exact ⟨h, ⟨by simp [Pil.WsOK], by intro c hc; cases hc⟩, by simp, by simp⟩)
    ⟨by simp [Pil.WsOK], by intro c hc; cases hc⟩
  simpa [LineSep.text, BLine.text, BLine.body, Pil.blines] using this

/-- **domain-length statements, tab version of `dl_domain_rt`**: every `blanks k` is an arbitrary blank/tab
    separator, the one after the keyword non-empty -/
theorem dl_domain_tabs_rt (kw : List Char) (hkw : kw = "length".toList ∨ kw = "domain".toList ∨ kw = "sequence".toList)
    (name d : List Char) (st : Bool) (sign : Char) (hs : sign = '=' ∨ sign = ':')
    (hn : Ident name) (hd : Digits d) (w1 w2 w3 w4 : List Char)
    (h1 : IsSep w1) (hne : w1 ≠ []) (h2 : IsSep w2) (h3 : IsSep w3) (h4 : IsSep w4) :
    parseDoc pil_env pil_grammar
      (String.ofList (kw ++ w1 ++ name ++ star st ++ w2 ++ [sign] ++ w3 ++ d ++ w4 ++ ['\n'])) =
    some [.grp [.tok "dl-domain", .tok (String.ofList (name ++ star st)), .tok (String.ofList d)]] :=
  stmt_tabs_rt _ _ (stmtTextT_dl_domain kw hkw name d st sign hs hn hd w1 w2 w3 w4 h1 hne h2 h3 h4)

theorem sl_domain_tabs_rt (name con : List Char) (st : Bool) (sign : Char) (hs : sign = '=' ∨ sign = ':')
    (hn : Ident name) (hc : Letters con) (w1 w2 w3 w4 : List Char)
    (h1 : IsSep w1) (hne : w1 ≠ []) (h2 : IsSep w2) (h3 : IsSep w3) (h4 : IsSep w4) :
    parseDoc pil_env pil_grammar
      (String.ofList ("sequence".toList ++ w1 ++ name ++ star st ++ w2 ++ [sign] ++ w3 ++ con ++ w4 ++ ['\n'])) =
    some [.grp [.tok "sl-domain", .tok (String.ofList (name ++ star st)), .tok (String.ofList con)]] :=
  stmt_tabs_rt _ _ (stmtTextT_sl_domain name con st sign hs hn hc w1 w2 w3 w4 h1 hne h2 h3 h4)

theorem comp_domain_tabs_rt (kw : List Char) (hkw : kw = "strand".toList ∨ kw = "sup-sequence".toList)
    (name : List Char) (doms : List (List Char)) (sign : Char) (hs : sign = '=' ∨ sign = ':')
    (hn : Ident name) (hd : doms ≠ [] ∧ ∀ d ∈ doms, DomName d) (w1 w2 w3 w4 : List Char)
    (h1 : IsSep w1) (hne : w1 ≠ []) (h2 : IsSep w2) (h3 : IsSep w3) (h4 : IsSep w4) :
    parseDoc pil_env pil_grammar
      (String.ofList (kw ++ w1 ++ name ++ w2 ++ [sign] ++ w3 ++ spaced doms ++ w4 ++ ['\n'])) =
    some [.grp [.tok "composite-domain", tokOf name, .grp (doms.map tokOf)]] :=
  stmt_tabs_rt _ _ (stmtTextT_comp_domain kw hkw name doms sign hs hn hd w1 w2 w3 w4 h1 hne h2 h3 h4)

theorem kernel_tabs_rt (name : List Char) (seq : List String) (sst : List Char) (toks : List Tree)
    (hn : Ident name) (hl : LegalNames seq sst) (hne : sst ≠ []) (ht : kernelTokens seq sst = some toks)
    (w0 : List Char) (seps : List (List Char)) (wEnd : List Char)
    (h0 : IsSep w0) (hne0 : w0 ≠ []) (hlen : seps.length = sst.length) (hseps : ∀ w ∈ seps, IsSep w ∧ w ≠ [])
    (hEnd : IsSep wEnd) :
    parseDoc pil_env pil_grammar
      (String.ofList (name ++ w0 ++ ['='] ++ kernelTabbed seq sst seps ++ wEnd ++ ['\n'])) =
    some [.grp [.tok "kernel-complex", tokOf name, .grp toks]] :=
  stmt_tabs_rt _ _ (stmtTextT_kernel name seq sst toks hn hl hne ht w0 seps wEnd h0 hne0 hlen hseps hEnd)

/-! ### remarks

* Covered: every `blanks k` of the round-trip theorems (after the keyword, around the assignment signs, at the end
  of the line), and for kernel complexes every gap of the pattern (Lemmas/PilKernelW.lean).
* Not covered (the round-trip theorems fix a single blank there): the gaps inside the lists of `strand` /
  `sup-sequence` (between domains), `state` (`", "`), `structure` (`" + "`, `" = "`, `" : "`), reactions (`" + "`,
  `" -> "`, the information box) and the concentration of a kernel complex.  The model accepts tabs there as well
  (checked example below), the general statement needs list lemmas with arbitrary gaps as in `PilKernelW`.
* A tab inside a comment or in a statement-free line is not covered either (`BLine.OK` excludes tabs). -/

example : parseDoc pil_env pil_grammar "strand s\t=\ta\tt*\n" =
    some [.grp [.tok "composite-domain", .tok "s", .grp [.tok "a", .tok "t*"]]] := by
  rfl

/-! ### non-vacuity: real tabs -/

theorem isSep_tab : IsSep ['\t'] := by
  intro c hc; simp at hc; exact Or.inr hc

theorem legal_ata : LegalNames ["a", "t", "a"] ['(', '.', ')'] := by
  have ia := ident_single 'a' (by decide); have it := ident_single 't' (by decide)
  refine ⟨rfl, ?_⟩
  intro i n c h1 h2
  match i, h1, h2 with
  | 0, h1, h2 =>
    simp at h1 h2; subst h1 h2
    exact ⟨by decide, fun _ => ⟨['a'], false, rfl, ia⟩, by decide⟩
  | 1, h1, h2 =>
    simp at h1 h2; subst h1 h2
    exact ⟨by decide, fun _ => ⟨['t'], false, rfl, it⟩, by decide⟩
  | 2, h1, h2 =>
    simp at h1 h2; subst h1 h2
    exact ⟨by decide, fun _ => ⟨['a'], false, rfl, ia⟩, by decide⟩
  | k + 3, h1, h2 => simp at h1

/-- `length<TAB>a<TAB>=<TAB>5` — from `dl_domain_tabs_rt` … -/
example : parseDoc pil_env pil_grammar "length\ta\t=\t5\n" = some [.grp [.tok "dl-domain", .tok "a", .tok "5"]] := by
  have h := dl_domain_tabs_rt "length".toList (Or.inl rfl) ['a'] ['5'] false '=' (Or.inl rfl)
    (ident_single 'a' (by decide)) ⟨by simp, by decide⟩ ['\t'] ['\t'] ['\t'] []
    isSep_tab (by simp) isSep_tab isSep_tab (by intro c hc; simp at hc)
  exact parse_of_text _ _ _ _ _ h (by decide +kernel)

/-- … and directly -/
example : parseDoc pil_env pil_grammar "length\ta\t=\t5\n" = some [.grp [.tok "dl-domain", .tok "a", .tok "5"]] := by
  rfl

/-- `X<TAB>=<TAB>a(<TAB>t<TAB>)` — tabs inside the kernel pattern, from `kernel_tabs_rt` … -/
example : parseDoc pil_env pil_grammar "X\t=\ta(\tt\t)\n" =
    some [.grp [.tok "kernel-complex", .tok "X", .grp [.tok "a", .grp [.tok "t"]]]] := by
  have h := kernel_tabs_rt ['X'] ["a", "t", "a"] ['(', '.', ')'] _ (ident_single 'X' (by decide)) legal_ata
    (by decide) rfl ['\t'] [['\t'], ['\t'], ['\t']] [] isSep_tab (by simp) rfl
    (by intro w hw; simp at hw; subst hw; exact ⟨isSep_tab, by simp⟩) (by intro c hc; simp at hc)
  exact parse_of_text _ _ _ _ _ h (by decide +kernel)

/-- … and directly -/
example : parseDoc pil_env pil_grammar "X\t=\ta(\tt\t)\n" =
    some [.grp [.tok "kernel-complex", .tok "X", .grp [.tok "a", .grp [.tok "t"]]]] := by
  rfl

/-- a two-statement document with tabs, blanks, a comment and a CRLF line end — from `document_tabs_rt` … -/
example : parseDoc pil_env pil_grammar "length\ta =\t5 \t# toehold\r\n\nX =\t a(\tt )\n" =
    some [.grp [.tok "dl-domain", .tok "a", .tok "5"],
          .grp [.tok "kernel-complex", .tok "X", .grp [.tok "a", .grp [.tok "t"]]]] := by
  have sp1 : IsSep [' '] := by intro c hc; simp at hc; exact Or.inl hc
  have sp2 : IsSep ['\t', ' '] := by intro c hc; simp at hc; rcases hc with h | h; exact Or.inr h; exact Or.inl h
  have sp3 : IsSep [' ', '\t'] := by intro c hc; simp at hc; rcases hc with h | h; exact Or.inl h; exact Or.inr h
  have h := document_tabs_rt []
    [(_, _, ⟨⟨[], some " toehold\r".toList⟩, [⟨[], none⟩]⟩),
     (_, _, ⟨⟨[], none⟩, []⟩)]
    ⟨[], none⟩ (by simp) (by simp)
    (by
      intro x hx
      simp only [List.mem_cons, List.not_mem_nil, or_false] at hx
      rcases hx with rfl | rfl
      · refine ⟨stmtTextT_dl_domain "length".toList (Or.inl rfl) ['a'] ['5'] false '=' (Or.inl rfl)
            (ident_single 'a' (by decide)) ⟨by simp, by decide⟩ ['\t'] [' '] ['\t'] [' ', '\t']
            isSep_tab (by simp) sp1 isSep_tab sp3,
          ⟨by simp [Pil.WsOK], by intro c hc; cases hc; exact ⟨by decide, by decide⟩⟩, by simp, ?_⟩
        intro b hb
        simp only [List.mem_cons, List.not_mem_nil, or_false] at hb
        subst hb
        exact ⟨by simp [Pil.WsOK], by intro c hc; cases hc⟩
      · exact ⟨stmtTextT_kernel ['X'] ["a", "t", "a"] ['(', '.', ')'] _ (ident_single 'X' (by decide)) legal_ata
            (by decide) rfl [' '] [['\t', ' '], ['\t'], [' ']] [] sp1 (by simp) rfl
            (by
              intro w hw
              simp only [List.mem_cons, List.not_mem_nil, or_false] at hw
              rcases hw with rfl | rfl | rfl
              · exact ⟨sp2, by simp⟩
              · exact ⟨isSep_tab, by simp⟩
              · exact ⟨sp1, by simp⟩)
            (by intro c hc; simp at hc),
          ⟨by simp [Pil.WsOK], by intro c hc; cases hc⟩, by simp, by simp⟩)
    ⟨by simp [Pil.WsOK], by intro c hc; cases hc⟩
  exact parse_of_text _ _ _ _ _ h (by decide +kernel)

/-- … and directly -/
example : parseDoc pil_env pil_grammar "length\ta =\t5 \t# toehold\r\n\nX =\t a(\tt )\n" =
    some [.grp [.tok "dl-domain", .tok "a", .tok "5"],
          .grp [.tok "kernel-complex", .tok "X", .grp [.tok "a", .grp [.tok "t"]]]] := by
  rfl

end Dsd.C13
