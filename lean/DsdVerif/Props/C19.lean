/- C19 — seesaw grammar round trips: theorems are in Props/C19Ssw.lean. -/
import DsdVerif.Props.C19Ssw
