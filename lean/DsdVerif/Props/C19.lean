/- C19 — seesaw grammar round trips: theorems are in Props/C19Ssw.lean and Props/C19More.lean. -/
import DsdVerif.Props.C19Ssw
import DsdVerif.Props.C19More
import DsdVerif.Props.C19Doc
import DsdVerif.Props.C19Layout
import DsdVerif.Props.C19Tabs
import DsdVerif.Props.C19Sound
import DsdVerif.Props.C19Stream
import DsdVerif.Props.C19Complete
import DsdVerif.Props.C19Forms
import DsdVerif.Props.C19FormsEx
import DsdVerif.Props.C19Reject
import DsdVerif.Props.C19RejectEx
import DsdVerif.Props.C19Indent
