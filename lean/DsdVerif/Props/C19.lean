/- C19 — theorems are being added. -/
import DsdVerif.Gen.Grammars
