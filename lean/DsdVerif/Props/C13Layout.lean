import DsdVerif.Props.C13Doc
import DsdVerif.Lemmas.PilLayout

namespace Dsd.C13
open Dsd Dsd.PP Dsd.Gen
open Dsd.Pil (StmtText StmtTextL NbTail Tail eolG BLine LineSep LItem LItemOK blines litemsText)

/-! C13, the LAYOUT clause: "every legal layout (comments, blank lines, either line-ending style) — parsing the
rendered text returns exactly the statement's token tree; parsing a document equals concatenating the parses of its
statements".  Lemmas/PilLayout.lean: a statement may be followed on its line by whitespace (blanks, CR) and a comment,
its line may end with "\n" or "\r\n", any number of empty / whitespace-only / comment-only lines may stand between
statements, before the first and after the last one, and the last line need not be terminated.

`Pil.StmtTextL s t`: `pil_stmt` parses `s` to `[t]` in front of every continuation whose first character is a CR, `#`
or a line feed (or that is empty) and that, after whitespace and a comment, is empty or starts with a line feed.
`StmtTextB s t` below is the stronger property that the continuation may also begin with blanks; it holds for every
statement kind except the strand-notation complexes, whose `dotbracket` word would swallow the blanks. -/

/-- `s` is a statement text that tolerates blanks after it: parsed to `[t]` in front of every `Pil.Tail` -/
structure StmtTextB (s : List Char) (t : Tree) : Prop where
  head : ∃ c, s.head? = some c ∧ Pil.StartCh c
  notab : '\t' ∉ s
  parses : ∃ N, N ≤ 4 * s.length + 100 ∧ ∀ (X : List Char) (NE : Nat) (p : Pos), Tail X →
    Ok pil_env NE {} eolG { rest := X, past := false } (p, []) →
    Ok pil_env (max N (NE + 30)) {} pil_stmt { rest := s ++ X, past := false } (p, [t])

/-- blanks may be appended to such a statement text -/
theorem StmtTextB.blanks {s : List Char} {t : Tree} (h : StmtTextB s t) (e : Nat) : StmtTextL (s ++ blanks e) t := by
  obtain ⟨N, hN, hok⟩ := h.parses
  obtain ⟨c, hc, hs⟩ := h.head
  refine ⟨⟨c, ?_, hs⟩, ?_, N, ?_, ?_⟩
  · cases s with
    | nil => simp at hc
    | cons d r => simpa using hc
  · have := Pil.notab_replicate e
    simp [C13.blanks, h.notab, this]
  · simp only [List.length_append]; omega
  · intro X NE p hX heol
    rw [List.append_assoc]
    exact hok _ NE p (hX.tail.blanks e) (Pil.Ok_eol_blanks e heol)

theorem StmtTextB.toL {s : List Char} {t : Tree} (h : StmtTextB s t) : StmtTextL s t := by
  have := h.blanks 0
  simpa [C13.blanks] using this

theorem stmtTextB_of (s : List Char) (t : Tree) (N : Nat) (c : Char) (f : List Char → List Char)
    (hf : ∀ X, s ++ X = f X) (hhead : (f []).head? = some c) (hc : Pil.StartCh c) (hnt : '\t' ∉ f [])
    (hN : N ≤ 4 * (f []).length + 100)
    (hok : ∀ (X : List Char) (NE : Nat) (p : Pos), Tail X →
      Ok pil_env NE {} eolG { rest := X, past := false } (p, []) →
      Ok pil_env (max N (NE + 30)) {} pil_stmt { rest := f X, past := false } (p, [t])) : StmtTextB s t := by
  have hs : s = f [] := by rw [← hf [], List.append_nil]
  refine ⟨⟨c, ?_, hc⟩, ?_, N, ?_, fun X NE p hX heol => by rw [hf X]; exact hok X NE p hX heol⟩
  · rw [hs]; exact hhead
  · rw [hs]; exact hnt
  · rw [hs]; exact hN

theorem stmtTextL_of (s : List Char) (t : Tree) (N : Nat) (c : Char) (f : List Char → List Char)
    (hf : ∀ X, s ++ X = f X) (hhead : (f []).head? = some c) (hc : Pil.StartCh c) (hnt : '\t' ∉ f [])
    (hN : N ≤ 4 * (f []).length + 100)
    (hok : ∀ (X : List Char) (NE : Nat) (p : Pos), NbTail X →
      Ok pil_env NE {} eolG { rest := X, past := false } (p, []) →
      Ok pil_env (max N (NE + 30)) {} pil_stmt { rest := f X, past := false } (p, [t])) : StmtTextL s t := by
  have hs : s = f [] := by rw [← hf [], List.append_nil]
  exact StmtTextL.of s t N c f (hs ▸ hhead) hc (hs ▸ hnt) (hs ▸ hN) hf hok

/-! ### the statement kinds (the texts are those of the round-trip theorems without the final line end) -/

theorem stmtTextB_dl_domain (kw : List Char) (hkw : kw = "length".toList ∨ kw = "domain".toList ∨ kw = "sequence".toList)
    (name d : List Char) (st : Bool) (sign : Char) (hs : sign = '=' ∨ sign = ':')
    (hn : Ident name) (hd : Digits d) (a b c e : Nat) :
    StmtTextB (kw ++ blanks (a + 1) ++ name ++ star st ++ blanks b ++ [sign] ++ blanks c ++ d ++ blanks e)
      (.grp [.tok "dl-domain", .tok (String.ofList (name ++ star st)), .tok (String.ofList d)]) := by
  obtain ⟨nc, m, rfl, hnc, hm⟩ := Pil.cons_of_class name _ hn
  obtain ⟨dc, dm, rfl, hdc, hdm⟩ := Pil.cons_of_class d _ hd
  have k1 : "length".toList = ['l', 'e', 'n', 'g', 't', 'h'] := by rfl
  have k2 : "domain".toList = ['d', 'o', 'm', 'a', 'i', 'n'] := by rfl
  have k3 : "sequence".toList = ['s', 'e', 'q', 'u', 'e', 'n', 'c', 'e'] := by rfl
  rw [k1, k2, k3] at hkw
  obtain ⟨kc, ks, hkcs, h1, h2, h3⟩ := Pil.Kw.head hkw
  have hkt : '\t' ∉ kw := by rcases hkw with e | e | e <;> rw [e] <;> decide
  refine stmtTextB_of _ _ 0 kc
    (fun X => kw ++ Pil.dlText (a + 1) nc m st b sign c (dc :: dm) (List.replicate e ' ' ++ X))
    (by intro X; simp [blanks, Pil.dlText, star, Pil.star, List.append_assoc])
    (by rw [hkcs]; rfl) ⟨h1, h2, h3⟩ ?_ (Nat.zero_le _) ?_
  · have := Pil.notab_dlText (a + 1) nc m st b sign hs c (dc :: dm) (List.replicate e ' ' ++ []) hnc hm
      (notab_cons_nums dc dm hdc hdm) (notab_blanks_tail e)
    simp only [List.mem_append, not_or]
    exact ⟨hkt, this⟩
  · intro X NE p hX heol
    have hT := hX.blanks e
    have hlen := (Pil.Ok_dlength_num pil_env c dc dm _ hdc hdm hT.outId).mono (N' := 5) (by decide)
    have hsl : No pil_env 14 {} pil_sl_domain
        { rest := kw ++ Pil.dlText (a + 1) nc m st b sign c (dc :: dm) (List.replicate e ' ' ++ X), past := false } := by
      rcases hkw with h | h | h
      · exact (Pil.No_sl_kw pil_env kw _ (Or.inl h)).mono (by decide)
      · exact (Pil.No_sl_kw pil_env kw _ (Or.inr h)).mono (by decide)
      · rw [h]; exact Pil.No_sl_digits pil_env (a + 1) (Nat.succ_pos a) nc m st b sign hs c dc dm _ hnc hm hdc
    have := Pil.dl_stmt_tail kw hkw (a + 1) (Nat.succ_pos a) nc m st b sign hs c (dc :: dm) _ NE p hnc hm hlen hsl
      (Pil.Ok_eol_blanks e heol)
    simp only [star]
    exact this.mono (by omega)

theorem stmtTextB_dl_domain_dtype (kw : List Char) (hkw : kw = "length".toList ∨ kw = "domain".toList)
    (name : List Char) (st : Bool) (dt : List Char) (hdt : dt = "short".toList ∨ dt = "long".toList)
    (sign : Char) (hs : sign = '=' ∨ sign = ':') (hn : Ident name) (a b c e : Nat) :
    StmtTextB (kw ++ blanks (a + 1) ++ name ++ star st ++ blanks b ++ [sign] ++ blanks c ++ dt ++ blanks e)
      (.grp [.tok "dl-domain", .tok (String.ofList (name ++ star st)), .tok (String.ofList dt)]) := by
  obtain ⟨nc, m, rfl, hnc, hm⟩ := Pil.cons_of_class name _ hn
  have k1 : "length".toList = ['l', 'e', 'n', 'g', 't', 'h'] := by rfl
  have k2 : "domain".toList = ['d', 'o', 'm', 'a', 'i', 'n'] := by rfl
  have k4 : "short".toList = ['s', 'h', 'o', 'r', 't'] := by rfl
  have k5 : "long".toList = ['l', 'o', 'n', 'g'] := by rfl
  rw [k1, k2] at hkw
  rw [k4, k5] at hdt
  have hkw' : Pil.Kw kw := by rcases hkw with h | h; exact Or.inl h; exact Or.inr (Or.inl h)
  obtain ⟨kc, ks, hkcs, h1, h2, h3⟩ := Pil.Kw.head hkw'
  have hkt : '\t' ∉ kw := by rcases hkw with e | e <;> rw [e] <;> decide
  have hdtt : '\t' ∉ dt := by rcases hdt with e | e <;> rw [e] <;> decide
  refine stmtTextB_of _ _ 0 kc
    (fun X => kw ++ Pil.dlText (a + 1) nc m st b sign c dt (List.replicate e ' ' ++ X))
    (by intro X; simp [blanks, Pil.dlText, star, Pil.star, List.append_assoc])
    (by rw [hkcs]; rfl) ⟨h1, h2, h3⟩ ?_ (Nat.zero_le _) ?_
  · have := Pil.notab_dlText (a + 1) nc m st b sign hs c dt (List.replicate e ' ' ++ []) hnc hm hdtt
      (notab_blanks_tail e)
    simp only [List.mem_append, not_or]
    exact ⟨hkt, this⟩
  · intro X NE p hX heol
    have hsl := (Pil.No_sl_kw pil_env kw
      (Pil.dlText (a + 1) nc m st b sign c dt (List.replicate e ' ' ++ X)) hkw).mono (N' := 14) (by decide)
    have hlen : Ok pil_env 5 {} pil_dlength
        { rest := List.replicate c ' ' ++ (dt ++ (List.replicate e ' ' ++ X)), past := false }
        ({ rest := List.replicate e ' ' ++ X, past := false }, [.tok (String.ofList dt)]) := by
      rcases hdt with rfl | rfl
      · exact (Pil.Ok_dlength_short pil_env c _).mono (by decide)
      · exact Pil.Ok_dlength_long pil_env c _
    have := Pil.dl_stmt_tail kw hkw' (a + 1) (Nat.succ_pos a) nc m st b sign hs c dt _ NE p hnc hm hlen hsl
      (Pil.Ok_eol_blanks e heol)
    simp only [star]
    exact this.mono (by omega)

theorem stmtTextB_sl_domain (name con : List Char) (st : Bool) (sign : Char) (hs : sign = '=' ∨ sign = ':')
    (hn : Ident name) (hc : Letters con) (a b c e : Nat) :
    StmtTextB ("sequence".toList ++ blanks (a + 1) ++ name ++ star st ++ blanks b ++ [sign] ++ blanks c ++ con ++ blanks e)
      (.grp [.tok "sl-domain", .tok (String.ofList (name ++ star st)), .tok (String.ofList con)]) := by
  obtain ⟨nc, m, rfl, hnc, hm⟩ := Pil.cons_of_class name _ hn
  obtain ⟨kc, km, rfl, hkc, hkm⟩ := Pil.cons_of_class con _ hc
  have k3 : "sequence".toList = ['s', 'e', 'q', 'u', 'e', 'n', 'c', 'e'] := by rfl
  refine stmtTextB_of _ _ 0 's'
    (fun X => ['s', 'e', 'q', 'u', 'e', 'n', 'c', 'e'] ++
      Pil.dlText (a + 1) nc m st b sign c (kc :: km) (List.replicate e ' ' ++ X))
    (by intro X; rw [k3]; simp [blanks, Pil.dlText, star, Pil.star, List.append_assoc])
    rfl ⟨by decide, by decide, by decide⟩ ?_ (Nat.zero_le _) ?_
  · have := Pil.notab_dlText (a + 1) nc m st b sign hs c (kc :: km) (List.replicate e ' ' ++ []) hnc hm
      (notab_cons_alphas kc km hkc hkm) (notab_blanks_tail e)
    simp only [List.mem_append, not_or]
    exact ⟨by decide, this⟩
  · intro X NE p hX heol
    have := Pil.sl_stmt_tail (a + 1) (Nat.succ_pos a) nc m st b sign hs c kc km _ NE p hnc hm hkc hkm
      (hX.blanks e) (Pil.Ok_eol_blanks e heol)
    simp only [star]
    exact this.mono (by omega)

theorem stmtTextB_sl_domain_len (name con d : List Char) (st : Bool) (s1 s2 : Char) (hs1 : s1 = '=' ∨ s1 = ':')
    (hs2 : s2 = '=' ∨ s2 = ':') (hn : Ident name) (hc : Letters con) (hd : Digits d) (a b c e f g : Nat) :
    StmtTextB ("sequence".toList ++ blanks (a + 1) ++ name ++ star st ++ blanks b ++ [s1] ++ blanks c ++ con ++ blanks e ++
        [s2] ++ blanks f ++ d ++ blanks g)
      (.grp [.tok "sl-domain", .tok (String.ofList (name ++ star st)), .tok (String.ofList con), .tok (String.ofList d)]) := by
  obtain ⟨nc, m, rfl, hnc, hm⟩ := Pil.cons_of_class name _ hn
  obtain ⟨kc, km, rfl, hkc, hkm⟩ := Pil.cons_of_class con _ hc
  obtain ⟨dc, dm, rfl, hdc, hdm⟩ := Pil.cons_of_class d _ hd
  have k3 : "sequence".toList = ['s', 'e', 'q', 'u', 'e', 'n', 'c', 'e'] := by rfl
  refine stmtTextB_of _ _ 0 's'
    (fun X => ['s', 'e', 'q', 'u', 'e', 'n', 'c', 'e'] ++ Pil.dlText (a + 1) nc m st b s1 c (kc :: km)
        (Pil.slTail e s2 f dc dm (List.replicate g ' ' ++ X)))
    (by intro X; rw [k3]; simp [blanks, Pil.dlText, Pil.slTail, star, Pil.star, List.append_assoc])
    rfl ⟨by decide, by decide, by decide⟩ ?_ (Nat.zero_le _) ?_
  · have hs2' : '\t' ≠ s2 := by rcases hs2 with rfl | rfl <;> decide
    have hd' := notab_cons_nums dc dm hdc hdm
    have := Pil.notab_dlText (a + 1) nc m st b s1 hs1 c (kc :: km)
      (Pil.slTail e s2 f dc dm (List.replicate g ' ' ++ [])) hnc hm (notab_cons_alphas kc km hkc hkm) (by
        unfold Pil.slTail
        simp only [List.mem_append, List.mem_cons, not_or]
        simp only [List.mem_cons, not_or] at hd'
        exact ⟨Pil.notab_replicate e, hs2', Pil.notab_replicate f, ⟨hd'.1, hd'.2⟩, Pil.notab_replicate g,
          List.not_mem_nil⟩)
    simp only [List.mem_append, not_or]
    exact ⟨by decide, this⟩
  · intro X NE p hX heol
    have := Pil.sl_len_stmt_tail (a + 1) (Nat.succ_pos a) nc m st b s1 hs1 c kc km e s2 hs2 f dc dm _ NE p hnc hm
      hkc hkm hdc hdm (hX.blanks g) (Pil.Ok_eol_blanks g heol)
    simp only [star]
    exact this.mono (by omega)

theorem stmtTextB_comp_domain (kw : List Char) (hkw : kw = "strand".toList ∨ kw = "sup-sequence".toList)
    (name : List Char) (doms : List (List Char)) (sign : Char) (hs : sign = '=' ∨ sign = ':')
    (hn : Ident name) (hd : doms ≠ [] ∧ ∀ d ∈ doms, DomName d) (a b c e : Nat) :
    StmtTextB (kw ++ blanks (a + 1) ++ name ++ blanks b ++ [sign] ++ blanks c ++ spaced doms ++ blanks e)
      (.grp [.tok "composite-domain", tokOf name, .grp (doms.map tokOf)]) := by
  obtain ⟨nc, m, rfl, hnc, hm⟩ := Pil.cons_of_class name _ hn
  obtain ⟨hd1, hd2⟩ := hd
  cases doms with
  | nil => exact absurd rfl hd1
  | cons d ds =>
    have hdd := domName_isDom d (hd2 d (by simp))
    have hds : ∀ x ∈ ds, Pil.IsDom x := fun x hx => domName_isDom x (hd2 x (List.mem_cons_of_mem _ hx))
    have k1 : "strand".toList = ['s', 't', 'r', 'a', 'n', 'd'] := by rfl
    have k2 : "sup-sequence".toList = ['s', 'u', 'p', '-', 's', 'e', 'q', 'u', 'e', 'n', 'c', 'e'] := by rfl
    rw [k1, k2] at hkw
    have hkt : '\t' ∉ kw := by rcases hkw with e | e <;> rw [e] <;> decide
    have hkh : kw.head? = some 's' := by rcases hkw with e | e <;> rw [e] <;> rfl
    refine stmtTextB_of _ _ (ds.length + 30) 's'
      (fun X => kw ++ Pil.compTextX (a + 1) nc m b sign c d ds (List.replicate e ' ' ++ X))
      (by intro X; rw [spaced_eq]; simp [blanks, Pil.compTextX, List.append_assoc])
      (by rcases hkw with e | e <;> rw [e] <;> rfl) ⟨by decide, by decide, by decide⟩ ?_ ?_ ?_
    · have h1 := notab_cons nc m hnc hm
      have hsg : '\t' ≠ sign := by rcases hs with rfl | rfl <;> decide
      unfold Pil.compTextX
      simp only [List.mem_append, List.mem_cons, not_or]
      simp only [List.mem_cons, not_or] at h1
      exact ⟨hkt, Pil.notab_replicate _, ⟨h1.1, h1.2⟩, Pil.notab_replicate b, hsg, Pil.notab_replicate c,
        Pil.notab_dom d hdd, Pil.notab_spDoms ds hds, Pil.notab_replicate e, List.not_mem_nil⟩
    · have := Pil.spDoms_length ds
      unfold Pil.compTextX
      simp only [List.length_append, List.length_cons]
      omega
    · intro X NE p hX heol
      have := Pil.comp_stmt_tail kw hkw (a + 1) (Nat.succ_pos a) nc m b sign hs c d ds _ NE p hnc hm hdd hds
        (hX.blanks e) (Pil.Ok_eol_blanks e heol)
      exact this

theorem stmtTextB_resting (kw : List Char) (hkw : kw = "state".toList ∨ kw = "macrostate".toList)
    (name : List Char) (mem : List (List Char)) (hn : Ident name) (hm : mem ≠ [] ∧ ∀ m ∈ mem, Ident m) (a b c e : Nat) :
    StmtTextB (kw ++ blanks (a + 1) ++ name ++ blanks b ++ ['='] ++ blanks c ++ ['['] ++ commaSep mem ++ [']'] ++ blanks e)
      (.grp [.tok "resting-macrostate", tokOf name, .grp (mem.map tokOf)]) := by
  obtain ⟨nc, m, rfl, hnc, hm'⟩ := Pil.cons_of_class name _ hn
  obtain ⟨hm1, hm2⟩ := hm
  cases mem with
  | nil => exact absurd rfl hm1
  | cons d ds =>
    obtain ⟨mc, mm, rfl, hmc, hmm⟩ := Pil.cons_of_class d _ (hm2 d (by simp))
    have hms : ∀ x ∈ ds, Pil.IsId x := fun x hx => ident_isId x (hm2 x (List.mem_cons_of_mem _ hx))
    have k1 : "state".toList = ['s', 't', 'a', 't', 'e'] := by rfl
    have k2 : "macrostate".toList = ['m', 'a', 'c', 'r', 'o', 's', 't', 'a', 't', 'e'] := by rfl
    rw [k1, k2] at hkw
    have hkt : '\t' ∉ kw := by rcases hkw with e | e <;> rw [e] <;> decide
    obtain ⟨kc, hkh, hkc⟩ : ∃ kc, kw.head? = some kc ∧ Pil.StartCh kc := by
      rcases hkw with e | e <;> rw [e]
      · exact ⟨'s', rfl, by decide, by decide, by decide⟩
      · exact ⟨'m', rfl, by decide, by decide, by decide⟩
    refine stmtTextB_of _ _ (ds.length + 40) kc
      (fun X => kw ++ Pil.restTextX (a + 1) nc m b c mc mm ds (List.replicate e ' ' ++ X))
      (by intro X; rw [commaSep_eq]; simp [blanks, Pil.restTextX, List.append_assoc])
      (by rcases hkw with e | e <;> rw [e] at hkh ⊢ <;> exact hkh) hkc ?_ ?_ ?_
    · have h1 := notab_cons nc m hnc hm'
      have h2 := notab_cons mc mm hmc hmm
      unfold Pil.restTextX
      simp only [List.mem_append, List.mem_cons, not_or]
      simp only [List.mem_cons, not_or] at h1 h2
      exact ⟨hkt, Pil.notab_replicate _, ⟨h1.1, h1.2⟩, Pil.notab_replicate b, by decide, Pil.notab_replicate c,
        by decide, ⟨h2.1, h2.2⟩, Pil.notab_csMems ds hms, by decide, Pil.notab_replicate e, List.not_mem_nil⟩
    · have := Pil.csMems_length ds
      unfold Pil.restTextX
      simp only [List.length_append, List.length_cons]
      omega
    · intro X NE p hX heol
      exact Pil.rest_stmt_tail kw hkw a nc m b c mc mm ds _ NE p hnc hm' hmc hmm hms (Pil.Ok_eol_blanks e heol)

theorem stmtTextB_kernel (name : List Char) (seq : List String) (sst : List Char) (toks : List Tree)
    (hn : Ident name) (hl : LegalNames seq sst) (hne : sst ≠ []) (ht : kernelTokens seq sst = some toks) :
    StmtTextB (name ++ " = ".toList ++ (kernelString seq sst).toList)
      (.grp [.tok "kernel-complex", tokOf name, .grp toks]) := by
  obtain ⟨nc, m, rfl, hnc, hm, hL, hleg, hp, _⟩ := kernel_prep name seq sst toks hn hl hne ht []
  have htext : ∀ X, nc :: m ++ " = ".toList ++ (kernelString seq sst).toList ++ X =
      Pil.kernelText nc m (seq.zip sst) X := by
    intro X
    obtain ⟨nc', m', e1, _, _, _, _, _, e2⟩ := kernel_prep (nc :: m) seq sst toks hn hl hne ht X
    simp only [List.cons.injEq] at e1
    rw [e2, e1.1, e1.2]
  obtain ⟨f1, f2⟩ := Pil.kernelText_facts nc m (seq.zip sst) [] hnc hm hleg (by simp)
  refine stmtTextB_of _ _ (8 * (seq.zip sst).length + 70) nc (fun X => Pil.kernelText nc m (seq.zip sst) X)
    htext rfl (startCh_ident nc hnc) f2 (by omega) ?_
  intro X NE p hX heol
  exact Pil.kernel_stmt_tail nc m _ toks X NE p hnc hm hL hleg hp hX heol

theorem stmtTextB_kernel_conc (name : List Char) (seq : List String) (sst : List Char) (toks : List Tree)
    (mode value unit : List Char)
    (hn : Ident name) (hl : LegalNames seq sst) (hne : sst ≠ []) (ht : kernelTokens seq sst = some toks)
    (hm : mode = "initial".toList ∨ mode = "i".toList ∨ mode = "constant".toList ∨ mode = "c".toList)
    (hv : Digits value)
    (hu : unit = "M".toList ∨ unit = "mM".toList ∨ unit = "uM".toList ∨ unit = "nM".toList ∨ unit = "pM".toList) :
    StmtTextB (name ++ " = ".toList ++ (kernelString seq sst).toList ++ " @".toList ++ mode ++ [' '] ++ value ++ [' '] ++ unit)
      (.grp [.tok "kernel-complex", tokOf name, .grp toks, .grp [tokOf mode, tokOf value, tokOf unit]]) := by
  obtain ⟨vc, vm, rfl, hvc, hvm⟩ := Pil.cons_of_class value _ hv
  have hmode : Pil.IsMode mode := by
    have e1 : "initial".toList = ['i', 'n', 'i', 't', 'i', 'a', 'l'] := rfl
    have e2 : "i".toList = ['i'] := rfl
    have e3 : "constant".toList = ['c', 'o', 'n', 's', 't', 'a', 'n', 't'] := rfl
    have e4 : "c".toList = ['c'] := rfl
    rw [e1, e2, e3, e4] at hm
    exact hm
  have hunit : Pil.IsCunit unit := by
    have e1 : "M".toList = ['M'] := rfl
    have e2 : "mM".toList = ['m', 'M'] := rfl
    have e3 : "uM".toList = ['u', 'M'] := rfl
    have e4 : "nM".toList = ['n', 'M'] := rfl
    have e5 : "pM".toList = ['p', 'M'] := rfl
    rw [e1, e2, e3, e4, e5] at hu
    exact hu
  obtain ⟨nc, m, rfl, hnc, hm', hL, hleg, hp, _⟩ := kernel_prep name seq sst toks hn hl hne ht []
  have htext : ∀ X, nc :: m ++ " = ".toList ++ (kernelString seq sst).toList ++ X =
      Pil.kernelText nc m (seq.zip sst) X := by
    intro X
    obtain ⟨nc', m', e1, _, _, _, _, _, e2⟩ := kernel_prep (nc :: m) seq sst toks hn hl hne ht X
    simp only [List.cons.injEq] at e1
    rw [e2, e1.1, e1.2]
  have k : " @".toList = [' ', '@'] := rfl
  have hXt : '\t' ∉ Pil.concTextX mode vc vm unit [] := by
    have n1 : '\t' ∉ mode := by rcases hmode with rfl | rfl | rfl | rfl <;> decide
    have n2 := notab_cons_nums vc vm hvc hvm
    have n3 : '\t' ∉ unit := by rcases hunit with rfl | rfl | rfl | rfl | rfl <;> decide
    unfold Pil.concTextX
    simp only [List.mem_cons, List.mem_append, not_or]
    simp only [List.mem_cons, not_or] at n2
    exact ⟨by decide, by decide, n1, by decide, ⟨n2.1, n2.2⟩, by decide, n3, List.not_mem_nil⟩
  obtain ⟨f1, f2⟩ := Pil.kernelText_facts nc m (seq.zip sst) (Pil.concTextX mode vc vm unit []) hnc hm' hleg hXt
  refine stmtTextB_of _ _ (8 * (seq.zip sst).length + 70) nc
    (fun X => Pil.kernelText nc m (seq.zip sst) (Pil.concTextX mode vc vm unit X))
    (by
      intro X
      rw [← htext]
      rw [k]; simp [Pil.concTextX, List.append_assoc])
    rfl (startCh_ident nc hnc) f2 (by omega) ?_
  intro X NE p hX heol
  exact Pil.kernel_conc_stmt_tail nc m _ toks mode vc vm unit X NE p hnc hm' hL hleg hp hmode hvc hvm hunit heol

theorem stmtTextB_reaction_plain (kw : List Char) (hkw : kw = "reaction".toList ∨ kw = "kinetic".toList)
    (rs ps : List (List Char)) (hr : rs ≠ [] ∧ ∀ r ∈ rs, Ident r) (hp : ps ≠ [] ∧ ∀ p ∈ ps, Ident p) (a : Nat) :
    StmtTextB (kw ++ blanks (a + 1) ++ plusSep rs ++ " -> ".toList ++ plusSep ps)
      (.grp [.tok "reaction", .grp [], .grp (rs.map tokOf), .grp (ps.map tokOf)]) := by
  obtain ⟨hr1, hr2⟩ := hr
  obtain ⟨hp1, hp2⟩ := hp
  cases rs with
  | nil => exact absurd rfl hr1
  | cons r rs =>
    cases ps with
    | nil => exact absurd rfl hp1
    | cons q ps =>
      obtain ⟨rc, rm, rfl, hrc, hrm⟩ := Pil.cons_of_class r _ (hr2 r (by simp))
      obtain ⟨pc, pm, rfl, hpc, hpm⟩ := Pil.cons_of_class q _ (hp2 q (by simp))
      have hrs : ∀ x ∈ rs, Pil.IsId x := fun x hx => ident_isId x (hr2 x (List.mem_cons_of_mem _ hx))
      have hps : ∀ x ∈ ps, Pil.IsId x := fun x hx => ident_isId x (hp2 x (List.mem_cons_of_mem _ hx))
      have k1 : "reaction".toList = ['r', 'e', 'a', 'c', 't', 'i', 'o', 'n'] := rfl
      have k2 : "kinetic".toList = ['k', 'i', 'n', 'e', 't', 'i', 'c'] := rfl
      rw [k1, k2] at hkw
      have hkt : '\t' ∉ kw := by rcases hkw with e | e <;> rw [e] <;> decide
      obtain ⟨kc, hkh, hkc⟩ : ∃ kc, kw.head? = some kc ∧ Pil.StartCh kc := by
        rcases hkw with e | e <;> rw [e]
        · exact ⟨'r', rfl, by decide, by decide, by decide⟩
        · exact ⟨'k', rfl, by decide, by decide, by decide⟩
      obtain ⟨f1, f2⟩ := rxTextX_facts (a + 1) rc rm rs pc pm ps hrc hrm hrs hpc hpm hps
      refine stmtTextB_of _ _ (max 6 (rs.length + ps.length) + 40) kc
        (fun X => kw ++ Pil.rxTextX (a + 1) rc rm rs pc pm ps X)
        (by intro X; rw [← rx_textX_eq]; simp [List.append_assoc])
        (by rcases hkw with e | e <;> rw [e] at hkh ⊢ <;> exact hkh) hkc ?_ ?_ ?_
      · simp only [List.mem_append, not_or]; exact ⟨hkt, f2⟩
      · simp only [List.length_append]; omega
      · intro X NE p hX heol
        exact Pil.rx_stmt_tail kw hkw _
          (by unfold Pil.rxTextX; exact Pil.OutHd_kw_blanks (a + 1) (Nat.succ_pos a) _) 6 []
          (a + 1) rc rm rs pc pm ps X NE p hrc hrm hrs hpc hpm hps
          (Pil.Ok_noinfo a rc rm rs pc pm ps X hrc) hX heol

theorem stmtTextB_reaction_info (ty rate : List Char) (cunits : List (List Char)) (tu : List Char)
    (rs ps : List (List Char)) (hty : Letters ty) (hrate : Digits rate)
    (hcu : ∀ u ∈ cunits, u = "M".toList ∨ u = "mM".toList ∨ u = "uM".toList ∨ u = "nM".toList ∨ u = "pM".toList)
    (htu : tu = "s".toList ∨ tu = "m".toList ∨ tu = "h".toList)
    (hr : rs ≠ [] ∧ ∀ r ∈ rs, Ident r) (hp : ps ≠ [] ∧ ∀ p ∈ ps, Ident p) :
    StmtTextB ("reaction [".toList ++ ty ++ " = ".toList ++ rate ++ [' '] ++ (cunits.map (fun u => '/' :: u)).flatten ++ ['/'] ++ tu ++
        "] ".toList ++ plusSep rs ++ " -> ".toList ++ plusSep ps)
      (.grp [.tok "reaction",
        .grp [.grp [tokOf ty], .grp [tokOf rate], .grp [tokOf ((cunits.map (fun u => '/' :: u)).flatten ++ ['/'] ++ tu)]],
        .grp (rs.map tokOf), .grp (ps.map tokOf)]) := by
  obtain ⟨hr1, hr2⟩ := hr
  obtain ⟨hp1, hp2⟩ := hp
  obtain ⟨tc, tm, rfl, htc, htm⟩ := Pil.cons_of_class ty _ hty
  obtain ⟨dc, dm, rfl, hdc, hdm⟩ := Pil.cons_of_class rate _ hrate
  have hcu' : ∀ u ∈ cunits, Pil.IsCunit u := by
    intro u hu
    have e1 : "M".toList = ['M'] := rfl
    have e2 : "mM".toList = ['m', 'M'] := rfl
    have e3 : "uM".toList = ['u', 'M'] := rfl
    have e4 : "nM".toList = ['n', 'M'] := rfl
    have e5 : "pM".toList = ['p', 'M'] := rfl
    have := hcu u hu
    rw [e1, e2, e3, e4, e5] at this
    exact this
  have htu' : Pil.IsTunit tu := by
    have e1 : "s".toList = ['s'] := rfl
    have e2 : "m".toList = ['m'] := rfl
    have e3 : "h".toList = ['h'] := rfl
    rw [e1, e2, e3] at htu
    exact htu
  cases rs with
  | nil => exact absurd rfl hr1
  | cons r rs =>
    cases ps with
    | nil => exact absurd rfl hp1
    | cons q ps =>
      obtain ⟨rc, rm, rfl, hrc, hrm⟩ := Pil.cons_of_class r _ (hr2 r (by simp))
      obtain ⟨pc, pm, rfl, hpc, hpm⟩ := Pil.cons_of_class q _ (hp2 q (by simp))
      have hrs : ∀ x ∈ rs, Pil.IsId x := fun x hx => ident_isId x (hr2 x (List.mem_cons_of_mem _ hx))
      have hps : ∀ x ∈ ps, Pil.IsId x := fun x hx => ident_isId x (hp2 x (List.mem_cons_of_mem _ hx))
      have htc' := (Pil.alphas_facts tc htc).1
      have htm' : ∀ x ∈ tm, x ∈ Pil.identChars := fun x hx => (Pil.alphas_facts x (htm x hx)).1
      have k1 : "reaction [".toList = ['r', 'e', 'a', 'c', 't', 'i', 'o', 'n', ' ', '['] := rfl
      have k2 : " = ".toList = [' ', '=', ' '] := rfl
      have k3 : "] ".toList = [']', ' '] := rfl
      obtain ⟨f1, f2⟩ := rxTextX_facts 1 rc rm rs pc pm ps hrc hrm hrs hpc hpm hps
      have l3 := Pil.cuText_length cunits
      have n3 := Pil.notab_cuText cunits hcu'
      have n1 := notab_cons tc tm htc' htm'
      have n2 := notab_cons_nums dc dm hdc hdm
      have n4 : '\t' ∉ tu := by rcases htu' with rfl | rfl | rfl <;> decide
      have htree : (Tree.grp [.tok "reaction",
          .grp [.grp [tokOf (tc :: tm)], .grp [tokOf (dc :: dm)],
            .grp [tokOf ((cunits.map (fun u => '/' :: u)).flatten ++ ['/'] ++ tu)]],
          .grp (((rc :: rm) :: rs).map tokOf), .grp (((pc :: pm) :: ps).map tokOf)]) =
          .grp [.tok "reaction",
            .grp [.grp [.tok (String.ofList (tc :: tm))], .grp [.tok (String.ofList (dc :: dm))],
              .grp [.tok (String.ofList (Pil.cuText cunits ++ ('/' :: tu)))]],
            .grp (((rc :: rm) :: rs).map (fun d => .tok (String.ofList d))),
            .grp (((pc :: pm) :: ps).map (fun d => .tok (String.ofList d)))] := by
        simp [tokOf, Pil.cuText, List.append_assoc]
      rw [htree]
      refine stmtTextB_of _ _ (max (2 * cunits.length + 32) (rs.length + ps.length) + 40) 'r'
        (fun X => ['r', 'e', 'a', 'c', 't', 'i', 'o', 'n'] ++
            Pil.infoText tc tm dc dm cunits tu (Pil.rxTextX 1 rc rm rs pc pm ps X))
        (by
          intro X
          rw [← rx_textX_eq, k1, k2, k3]
          simp [Pil.infoText, Pil.cuText, blanks, List.append_assoc])
        rfl ⟨by decide, by decide, by decide⟩ ?_ ?_ ?_
      · unfold Pil.infoText
        simp only [List.mem_cons, List.mem_append, not_or]
        simp only [List.mem_cons, not_or] at n1 n2
        exact ⟨⟨by decide, by decide, by decide, by decide, by decide, by decide, by decide, by decide,
            List.not_mem_nil⟩, by decide, by decide, ⟨n1.1, n1.2⟩, by decide, by decide, by decide, ⟨n2.1, n2.2⟩,
          by decide, n3, by decide, n4, by decide, f2⟩
      · unfold Pil.infoText
        simp only [List.length_append, List.length_cons]
        omega
      · intro X NE p hX heol
        exact Pil.rx_stmt_tail _ (Or.inl rfl) _
          (by unfold Pil.infoText; exact Pil.OutHd_cons _ _ _ (Pil.outside_facts ' ' (by decide))) _ _
          1 rc rm rs pc pm ps X NE p hrc hrm hrs hpc hpm hps
          (Pil.Ok_infobox pil_env tc tm dc dm cunits tu _ htc' htm' hdc hdm hcu' htu') hX heol

theorem stmtTextL_complex (name : List Char) (strands : List (List Char)) (db : List Char) (sign : Char)
    (hs : sign = '=' ∨ sign = ':')
    (hn : Ident name) (hst : strands ≠ [] ∧ ∀ s ∈ strands, DomName s) (hdb : DotBracket db) (a b : Nat) :
    StmtTextL ("complex".toList ++ blanks (a + 1) ++ name ++ blanks b ++ [sign] ++ ['\n'] ++ spaced strands ++ ['\n'] ++ db)
      (.grp [.tok "strand-complex", tokOf name, .grp (strands.map tokOf), tokOf db]) := by
  obtain ⟨nc, m, rfl, hnc, hm⟩ := Pil.cons_of_class name _ hn
  obtain ⟨dbc, dbm, rfl, hdbc, hdbm⟩ := dotBracket_core db hdb
  obtain ⟨hst1, hst2⟩ := hst
  cases strands with
  | nil => exact absurd rfl hst1
  | cons d ds =>
    have hdd := domName_isDom d (hst2 d (by simp))
    have hds : ∀ x ∈ ds, Pil.IsDom x := fun x hx => domName_isDom x (hst2 x (List.mem_cons_of_mem _ hx))
    have k : "complex".toList = ['c', 'o', 'm', 'p', 'l', 'e', 'x'] := rfl
    refine stmtTextL_of _ _ (ds.length + 40) 'c'
      (fun X => 'c' :: (['o', 'm', 'p', 'l', 'e', 'x'] ++ Pil.complexTextX (a + 1) nc m b sign d ds dbc dbm X))
      (by intro X; rw [k, spaced_eq]; simp [blanks, Pil.complexTextX, List.append_assoc])
      rfl ⟨by decide, by decide, by decide⟩ ?_ ?_ ?_
    · have h1 := notab_cons nc m hnc hm
      have h2 := Pil.notab_db dbc dbm hdbc hdbm
      have hsg : '\t' ≠ sign := by rcases hs with rfl | rfl <;> decide
      unfold Pil.complexTextX
      simp only [List.mem_append, List.mem_cons, not_or]
      simp only [List.mem_cons, not_or] at h1 h2
      exact ⟨by decide, ⟨by decide, by decide, by decide, by decide, by decide, by decide, List.not_mem_nil⟩,
        Pil.notab_replicate _, ⟨h1.1, h1.2⟩, Pil.notab_replicate b, hsg, by decide, Pil.notab_dom d hdd,
        Pil.notab_spDoms ds hds, by decide, ⟨h2.1, h2.2⟩, List.not_mem_nil⟩
    · have := Pil.spDoms_length ds
      unfold Pil.complexTextX
      simp only [List.length_append, List.length_cons]
      omega
    · intro X NE p hX heol
      exact Pil.complex_stmt_tail (a + 1) (Nat.succ_pos a) nc m b sign hs d ds dbc dbm X NE p hnc hm hdd hds
        hdbc hdbm hX.outDb heol

theorem stmtTextL_structure (name : List Char) (strands : List (List Char)) (db : List Char) (s1 s2 : Char)
    (hs1 : s1 = '=' ∨ s1 = ':') (hs2 : s2 = '=' ∨ s2 = ':')
    (hn : Ident name) (hst : strands ≠ [] ∧ ∀ s ∈ strands, DomName s) (hdb : DotBracket db) (a : Nat) :
    StmtTextL ("structure".toList ++ blanks (a + 1) ++ name ++ [' ', s1, ' '] ++ plusSep strands ++ [' ', s2, ' '] ++ db)
      (.grp [.tok "strand-complex", tokOf name, .grp (strands.map tokOf), tokOf db]) := by
  obtain ⟨nc, m, rfl, hnc, hm⟩ := Pil.cons_of_class name _ hn
  obtain ⟨dbc, dbm, rfl, hdbc, hdbm⟩ := dotBracket_core db hdb
  obtain ⟨hst1, hst2⟩ := hst
  cases strands with
  | nil => exact absurd rfl hst1
  | cons d ds =>
    have hdd := domName_isDom d (hst2 d (by simp))
    have hds : ∀ x ∈ ds, Pil.IsDom x := fun x hx => domName_isDom x (hst2 x (List.mem_cons_of_mem _ hx))
    have k : "structure".toList = ['s', 't', 'r', 'u', 'c', 't', 'u', 'r', 'e'] := rfl
    refine stmtTextL_of _ _ (2 * ds.length + 40) 's'
      (fun X => 's' :: (['t', 'r', 'u', 'c', 't', 'u', 'r', 'e'] ++ Pil.structTextX (a + 1) nc m s1 d ds s2 dbc dbm X))
      (by intro X; rw [k, plusSep_eq]; simp [blanks, Pil.structTextX, List.append_assoc])
      rfl ⟨by decide, by decide, by decide⟩ ?_ ?_ ?_
    · have h1 := notab_cons nc m hnc hm
      have h2 := Pil.notab_db dbc dbm hdbc hdbm
      have hsg1 : '\t' ≠ s1 := by rcases hs1 with rfl | rfl <;> decide
      have hsg2 : '\t' ≠ s2 := by rcases hs2 with rfl | rfl <;> decide
      unfold Pil.structTextX
      simp only [List.mem_append, List.mem_cons, not_or]
      simp only [List.mem_cons, not_or] at h1 h2
      exact ⟨by decide, ⟨by decide, by decide, by decide, by decide, by decide, by decide, by decide, by decide,
          List.not_mem_nil⟩,
        Pil.notab_replicate _, ⟨h1.1, h1.2⟩, by decide, hsg1, by decide, Pil.notab_dom d hdd,
        Pil.notab_psList ds (fun x hx => Pil.notab_dom x (hds x hx)), by decide, hsg2, by decide, ⟨h2.1, h2.2⟩,
        List.not_mem_nil⟩
    · have := Pil.psList_length ds
      unfold Pil.structTextX
      simp only [List.length_append, List.length_cons]
      omega
    · intro X NE p hX heol
      exact Pil.struct_stmt_tail (a + 1) (Nat.succ_pos a) nc m s1 s2 hs1 hs2 d ds dbc dbm X NE p hnc hm hdd hds
        hdbc hdbm hX.outDb heol

/-! ### documents -/

/-- **documents in any line-level layout parse as the concatenation of their statements.**
    `pre`: statement-free lines (whitespace, optionally a comment) before the first statement; every statement `s`
    (`StmtTextL s t`) is followed by a separator `sp : LineSep`: the rest of its line — whitespace not starting with a
    blank (blanks belong to the statement text), optionally a comment, the line feed; so "\n", "\r\n", "# …\n",
    "\r # …\r\n" … — and any number of statement-free lines; `fin`: an unterminated last line of whitespace /
    a comment. -/
theorem document_layout_rt (pre : List BLine) (stmts : List LItem) (fin : BLine) (hne : stmts ≠ [])
    (hpre : ∀ b ∈ pre, b.OK) (h : ∀ x ∈ stmts, StmtTextL x.1 x.2.1 ∧ x.2.2.OK) (hfin : fin.OK) :
    parseDoc pil_env pil_grammar
      (String.ofList (pre.flatMap BLine.text ++ (stmts.flatMap (fun x => x.1 ++ x.2.2.text) ++ fin.body))) =
    some (stmts.map (fun x => x.2.1)) :=
  Pil.document_layout_parse pre hpre stmts hne h fin.body (Pil.skipIgn_body fin hfin) (Pil.notab_bline fin hfin)

/-- … and with a last statement whose own line is not terminated by a line feed (only whitespace not starting with
    a blank, and possibly a comment, follow it) -/
theorem document_layout_open_rt (pre : List BLine) (stmts : List LItem) (s : List Char) (t : Tree) (fin : BLine)
    (hpre : ∀ b ∈ pre, b.OK) (h : ∀ x ∈ stmts, StmtTextL x.1 x.2.1 ∧ x.2.2.OK) (hs : StmtTextL s t)
    (hfin : fin.OK) (hnb : fin.ws.head? ≠ some ' ') :
    parseDoc pil_env pil_grammar
      (String.ofList (pre.flatMap BLine.text ++ (stmts.flatMap (fun x => x.1 ++ x.2.2.text) ++ (s ++ fin.body)))) =
    some (stmts.map (fun x => x.2.1) ++ [t]) :=
  Pil.document_layout_parse_open pre hpre stmts h s t hs fin.body (Pil.nbTail_body fin hfin hnb)
    (Pil.skipIgn_body fin hfin) (Pil.notab_bline fin hfin)

/-! #### line endings only -/

/-- the line end of a statement, "\n" or "\r\n", and blank lines: each a list of blanks / carriage returns
    (so "", "   ", "\r" …) followed by a line feed -/
abbrev CrlfSep := Bool × List (List Char)

def CrlfSep.text (sp : CrlfSep) : List Char :=
  (if sp.1 then ['\r', '\n'] else ['\n']) ++ sp.2.flatMap (fun ws => ws ++ ['\n'])

def CrlfSep.toSep (sp : CrlfSep) : LineSep :=
  { first := ⟨if sp.1 then ['\r'] else [], none⟩, more := sp.2.map (fun ws => ⟨ws, none⟩) }

theorem CrlfSep.toSep_text (sp : CrlfSep) : sp.toSep.text = sp.text := by
  obtain ⟨b, ls⟩ := sp
  have : Pil.blines (ls.map (fun ws => (⟨ws, none⟩ : BLine))) = ls.flatMap (fun ws => ws ++ ['\n']) := by
    induction ls with
    | nil => rfl
    | cons l ls ih =>
      simp only [Pil.blines, List.map_cons, List.flatMap_cons] at ih ⊢
      rw [ih]; simp [BLine.text, BLine.body]
  cases b <;> simp [CrlfSep.toSep, CrlfSep.text, LineSep.text, BLine.text, BLine.body, this]

theorem CrlfSep.toSep_ok (sp : CrlfSep) (h : ∀ ws ∈ sp.2, Pil.WsOK ws) : sp.toSep.OK := by
  obtain ⟨b, ls⟩ := sp
  refine ⟨⟨?_, by intro c hc; cases hc⟩, ?_, ?_⟩
  · cases b <;> simp [CrlfSep.toSep, Pil.WsOK]
  · cases b <;> simp [CrlfSep.toSep]
  · intro x hx
    simp only [CrlfSep.toSep, List.mem_map] at hx
    obtain ⟨ws, hws, rfl⟩ := hx
    exact ⟨h ws hws, by intro c hc; cases hc⟩

/-- **either line-ending style**: every statement is terminated by "\n" or "\r\n" and followed by any number of
    lines that are empty or consist of blanks / carriage returns only -/
theorem document_crlf_rt (stmts : List (List Char × Tree × CrlfSep)) (hne : stmts ≠ [])
    (h : ∀ x ∈ stmts, StmtTextL x.1 x.2.1 ∧ ∀ ws ∈ x.2.2.2, Pil.WsOK ws) :
    parseDoc pil_env pil_grammar (String.ofList (stmts.flatMap (fun x => x.1 ++ x.2.2.text))) =
    some (stmts.map (fun x => x.2.1)) := by
  have key := document_layout_rt [] (stmts.map (fun x => (x.1, x.2.1, x.2.2.toSep))) ⟨[], none⟩
    (by simpa using hne) (by simp)
    (by
      intro y hy
      obtain ⟨x, hx, rfl⟩ := List.mem_map.mp hy
      exact ⟨(h x hx).1, CrlfSep.toSep_ok x.2.2 (h x hx).2⟩)
    ⟨by simp [Pil.WsOK], by intro c hc; cases hc⟩
  have e1 : (stmts.map (fun x => (x.1, x.2.1, x.2.2.toSep))).flatMap (fun x => x.1 ++ x.2.2.text) =
      stmts.flatMap (fun x => x.1 ++ x.2.2.text) := by
    rw [List.flatMap_map]
    congr 1
    funext x
    simp [CrlfSep.toSep_text]
  simp only [List.flatMap_nil, List.nil_append, BLine.body, List.append_nil, e1, List.map_map] at key
  exact key

/-! #### comments only -/

/-- a comment after the statement (`# …` directly after the statement text, whose trailing blanks belong to the
    statement), the line feed, and lines each consisting of blanks and optionally a comment -/
abbrev ComSep := Option (List Char) × List (Nat × Option (List Char))

def cmText : Option (List Char) → List Char
  | none => []
  | some c => '#' :: c

def ComSep.text (sp : ComSep) : List Char :=
  cmText sp.1 ++ ['\n'] ++ sp.2.flatMap (fun l => blanks l.1 ++ cmText l.2 ++ ['\n'])

def ComSep.toSep (sp : ComSep) : LineSep :=
  { first := ⟨[], sp.1⟩, more := sp.2.map (fun l => ⟨blanks l.1, l.2⟩) }

theorem body_eq (ws : List Char) (cm : Option (List Char)) : (⟨ws, cm⟩ : BLine).body = ws ++ cmText cm := by
  cases cm <;> rfl

theorem ComSep.toSep_text (sp : ComSep) : sp.toSep.text = sp.text := by
  obtain ⟨c, ls⟩ := sp
  have : Pil.blines (ls.map (fun l => (⟨blanks l.1, l.2⟩ : BLine))) =
      ls.flatMap (fun l => blanks l.1 ++ cmText l.2 ++ ['\n']) := by
    induction ls with
    | nil => rfl
    | cons l ls ih =>
      simp only [Pil.blines, List.map_cons, List.flatMap_cons] at ih ⊢
      rw [ih]; simp [BLine.text, body_eq]
  simp [ComSep.toSep, ComSep.text, LineSep.text, BLine.text, body_eq, this]

def ComSep.OK (sp : ComSep) : Prop :=
  (∀ c, sp.1 = some c → Pil.CmOK c) ∧ ∀ l ∈ sp.2, ∀ c, l.2 = some c → Pil.CmOK c

theorem wsOK_blanks (n : Nat) : Pil.WsOK (blanks n) := by
  intro c hc
  exact Or.inl (List.eq_of_mem_replicate hc)

theorem ComSep.toSep_ok (sp : ComSep) (h : sp.OK) : sp.toSep.OK := by
  obtain ⟨c, ls⟩ := sp
  refine ⟨⟨by simp [ComSep.toSep, Pil.WsOK], h.1⟩, by simp [ComSep.toSep], ?_⟩
  intro x hx
  simp only [ComSep.toSep, List.mem_map] at hx
  obtain ⟨l, hl, rfl⟩ := hx
  exact ⟨wsOK_blanks l.1, h.2 l hl⟩

/-- **comments**: comment-only (optionally indented) and blank lines `pre` before the first statement; every
    statement may be followed on its line by a comment and, after the line feed, by any number of lines each of
    which is empty, blank, or an (indented) comment — also after the last statement -/
theorem document_comments_rt (pre : List (Nat × Option (List Char))) (stmts : List (List Char × Tree × ComSep))
    (hne : stmts ≠ []) (hpre : ∀ l ∈ pre, ∀ c, l.2 = some c → Pil.CmOK c)
    (h : ∀ x ∈ stmts, StmtTextL x.1 x.2.1 ∧ x.2.2.OK) :
    parseDoc pil_env pil_grammar
      (String.ofList (pre.flatMap (fun l => blanks l.1 ++ cmText l.2 ++ ['\n']) ++
        stmts.flatMap (fun x => x.1 ++ x.2.2.text))) =
    some (stmts.map (fun x => x.2.1)) := by
  have key := document_layout_rt (pre.map (fun l => ⟨blanks l.1, l.2⟩))
    (stmts.map (fun x => (x.1, x.2.1, x.2.2.toSep))) ⟨[], none⟩
    (by simpa using hne)
    (by
      intro b hb
      obtain ⟨l, hl, rfl⟩ := List.mem_map.mp hb
      exact ⟨wsOK_blanks l.1, hpre l hl⟩)
    (by
      intro y hy
      obtain ⟨x, hx, rfl⟩ := List.mem_map.mp hy
      exact ⟨(h x hx).1, ComSep.toSep_ok x.2.2 (h x hx).2⟩)
    ⟨by simp [Pil.WsOK], by intro c hc; cases hc⟩
  have e0 : (pre.map (fun l => (⟨blanks l.1, l.2⟩ : BLine))).flatMap BLine.text =
      pre.flatMap (fun l => blanks l.1 ++ cmText l.2 ++ ['\n']) := by
    rw [List.flatMap_map]
    congr 1 <;> (funext l; simp [BLine.text, body_eq])
  have e1 : (stmts.map (fun x => (x.1, x.2.1, x.2.2.toSep))).flatMap (fun x => x.1 ++ x.2.2.text) =
      stmts.flatMap (fun x => x.1 ++ x.2.2.text) := by
    rw [List.flatMap_map]
    congr 1
    funext x
    simp [ComSep.toSep_text]
  simp only [e0, e1, BLine.body, List.append_nil, List.map_map] at key
  exact key

/-! ### remarks

* The blanks between a statement and a comment on the same line belong to the statement text: the instances
  `stmtTextB_*` allow them (`StmtTextB.blanks`).  For the strand-notation complexes (`stmtTextL_complex`,
  `stmtTextL_structure`) the comment — or the carriage return of a "\r\n" line end — must follow the dot-bracket
  directly: `dotbracket = Word("(.)+ ")` contains the blank, so `structure x = a : . # c` yields the token `". "`.
  A carriage return or `#` directly after the dot-bracket is fine (both are not dot-bracket characters). -/

example : parseDoc pil_env pil_grammar "structure x = a : . # c\n" =
    some [.grp [.tok "strand-complex", .tok "x", .grp [.tok "a"], .tok ". "]] := by
  rfl

example : parseDoc pil_env pil_grammar "structure x = a : .# c\r\nstructure y = a : .\r\n" =
    some [.grp [.tok "strand-complex", .tok "x", .grp [.tok "a"], .tok "."],
          .grp [.tok "strand-complex", .tok "y", .grp [.tok "a"], .tok "."]] := by
  rfl

/-! * `skipIgn` skips ONE comment; successive comment lines are consumed by successive `LineEnd` matches of the
  `OneOrMore(LineEnd)` that ends the preceding statement (or of the `ZeroOrMore(LineEnd)` at the beginning of the
  document), so any number of them is accepted.
* Tabs are excluded throughout (`parseString` expands them before parsing). -/

/-! ### non-vacuity: CRLF line ends, a comment after a statement, a comment-only line, a blank line, comment lines
before the first and (unterminated) after the last statement -/

theorem bline_ok (ws : List Char) (cm : Option (List Char)) (h1 : ∀ c ∈ ws, c = ' ' ∨ c = '\r')
    (h2 : ∀ c, cm = some c → '\n' ∉ c ∧ '\t' ∉ c) : (⟨ws, cm⟩ : BLine).OK := ⟨h1, h2⟩

example :
    parseDoc pil_env pil_grammar
      "# system\r\nlength a = 5 # toehold\r\n\r\n  # strands\r\nstrand s = a t*\r\nX = a( t )\r\n# end" =
    some [.grp [.tok "dl-domain", .tok "a", .tok "5"],
          .grp [.tok "composite-domain", .tok "s", .grp [.tok "a", .tok "t*"]],
          .grp [.tok "kernel-complex", .tok "X", .grp [.tok "a", .grp [.tok "t"]]]] := by
  have ia := ident_single 'a' (by decide); have it := ident_single 't' (by decide)
  have is := ident_single 's' (by decide); have iX := ident_single 'X' (by decide)
  have d5 : Digits ['5'] := ⟨by simp, by decide⟩
  have hleg : LegalNames ["a", "t", "a"] ['(', '.', ')'] := by
    refine ⟨rfl, ?_⟩
    intro i n c h1 h2
    match i, h1, h2 with
    | 0, h1, h2 =>
      simp at h1 h2; subst h1 h2
      exact ⟨by decide, fun _ => ⟨['a'], false, rfl, ia⟩, by decide⟩
    | 1, h1, h2 =>
      simp at h1 h2; subst h1 h2
      exact ⟨by decide, fun _ => ⟨['t'], false, rfl, it⟩, by decide⟩
    | 2, h1, h2 =>
      simp at h1 h2; subst h1 h2
      exact ⟨by decide, fun _ => ⟨['a'], false, rfl, ia⟩, by decide⟩
    | k + 3, h1, h2 => simp at h1
  have cm : ∀ (x : List Char), '\n' ∉ x → '\t' ∉ x → ∀ c, some x = some c → '\n' ∉ c ∧ '\t' ∉ c := by
    intro x a b c hc; cases hc; exact ⟨a, b⟩
  have none_ok : ∀ c : List Char, (none : Option (List Char)) = some c → '\n' ∉ c ∧ '\t' ∉ c := by
    intro c hc; cases hc
  have h := document_layout_rt
    [⟨[], some " system\r".toList⟩]
    [(_, _, ⟨⟨[], some " toehold\r".toList⟩, [⟨['\r'], none⟩, ⟨[' ', ' '], some " strands\r".toList⟩]⟩),
     (_, _, ⟨⟨['\r'], none⟩, []⟩),
     (_, _, ⟨⟨['\r'], none⟩, []⟩)]
    ⟨[], some " end".toList⟩ (by simp)
    (by
      intro b hb
      simp only [List.mem_cons, List.not_mem_nil, or_false] at hb
      subst hb
      exact bline_ok _ _ (by decide) (cm _ (by decide) (by decide)))
    (by
      intro x hx
      simp only [List.mem_cons, List.not_mem_nil, or_false] at hx
      rcases hx with rfl | rfl | rfl
      · refine ⟨(stmtTextB_dl_domain "length".toList (Or.inl rfl) ['a'] ['5'] false '=' (Or.inl rfl) ia d5
            0 1 1 1).toL, bline_ok _ _ (by decide) (cm _ (by decide) (by decide)), by decide, ?_⟩
        intro b hb
        simp only [List.mem_cons, List.not_mem_nil, or_false] at hb
        rcases hb with rfl | rfl
        · exact bline_ok _ _ (by decide) none_ok
        · exact bline_ok _ _ (by decide) (cm _ (by decide) (by decide))
      · exact ⟨(stmtTextB_comp_domain "strand".toList (Or.inl rfl) ['s'] [['a'], ['t', '*']] '=' (Or.inl rfl) is
            ⟨by simp, by
              intro d hd; simp at hd
              rcases hd with rfl | rfl
              · exact ⟨['a'], false, rfl, ia⟩
              · exact ⟨['t'], true, rfl, it⟩⟩ 0 1 1 0).toL,
          bline_ok _ _ (by decide) none_ok, by decide, by simp⟩
      · exact ⟨(stmtTextB_kernel ['X'] ["a", "t", "a"] ['(', '.', ')'] _ iX hleg (by decide) rfl).toL,
          bline_ok _ _ (by decide) none_ok, by decide, by simp⟩)
    (bline_ok _ _ (by decide) (cm _ (by decide) (by decide)))
  exact parse_of_text _ _ _ _ _ h (by decide +kernel)

/-- the same document, checked directly against the interpreter -/
example :
    parseDoc pil_env pil_grammar
      "# system\r\nlength a = 5 # toehold\r\n\r\n  # strands\r\nstrand s = a t*\r\nX = a( t )\r\n# end" =
    some [.grp [.tok "dl-domain", .tok "a", .tok "5"],
          .grp [.tok "composite-domain", .tok "s", .grp [.tok "a", .tok "t*"]],
          .grp [.tok "kernel-complex", .tok "X", .grp [.tok "a", .grp [.tok "t"]]]] := by
  rfl

end Dsd.C13
