/- C03 — views describe the current rotation: theorems are in Props/C03Views.lean. -/
import DsdVerif.Props.C03Views
