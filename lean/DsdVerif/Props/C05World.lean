import DsdVerif.Model.World
import DsdVerif.Props.C01Reg
import DsdVerif.Lemmas.World
import DsdVerif.Lemmas.Domain

namespace Dsd.C05
open Dsd

/-! Lifetime (C05) and class independence (C15) on the model of the object world (Model/World.lean):
liveness is reachability from the user's handles through containment edges. -/

/-- graph reachability from the held handles through `children` edges -/
inductive Reach (w : World) : Nat → Prop
  | held (x : Nat) : x ∈ w.held → Reach w x
  | child (x y : Nat) : Reach w x → y ∈ w.childrenOf x → Reach w y

/-- the computed set is sound: everything in it is reachable -/
theorem reachable_sound (w : World) (x : Nat) (h : x ∈ w.reachable) : Reach w x := by
  unfold World.reachable at h
  exact WorldL.iter_sound w _ (Reach w) (fun y hy => Reach.held y (List.mem_eraseDups.mp hy))
    (fun a b ha hb => Reach.child a b ha hb) _ x h

/-- … and complete, provided every child of a node is itself a node or a handle-less id that occurs in the graph
    (the number of rounds `nodes.length + 1` suffices when all reachable ids are held ids or node ids) -/
theorem reachable_complete (w : World) (hids : ∀ x, Reach w x → x ∈ w.held ∨ ∃ n ∈ w.nodes, n.id = x)
    (hnodup : (w.nodes.map (·.id)).Nodup) (x : Nat) (h : Reach w x) : x ∈ w.reachable := by
  have hclosed := WorldL.iter_closed w w.held.eraseDups (Reach w)
    (fun y hy => Reach.held y (List.mem_eraseDups.mp hy))
    (fun a b ha hb => Reach.child a b ha hb)
    (fun y hy => by
      rcases hids y hy with h1 | h1
      · exact Or.inl (List.mem_eraseDups.mpr h1)
      · exact Or.inr h1)
  unfold World.reachable
  induction h with
  | held y hy =>
    exact WorldL.iter_mono_le w _ 0 _ (by omega) y (List.mem_eraseDups.mpr hy)
  | child a b _ hb ih => exact hclosed a ih b hb

theorem dropDead_get {κ} [DecidableEq κ] (cs : List (ClassReg κ)) (alive : List Nat) (c : Nat) (cr : ClassReg κ)
    (h : cs[c]? = some cr) :
    (World.dropDead cs alive)[c]? =
      some { cr with reg := { cr.reg with objs := cr.reg.objs.filter (fun o => alive.contains o.id) } } := by
  unfold World.dropDead
  rw [List.getElem?_map, h]; rfl

theorem dropDead_mem {κ} [DecidableEq κ] (cs : List (ClassReg κ)) (alive : List Nat) (cr : ClassReg κ)
    (h : cr ∈ World.dropDead cs alive) : ∀ o ∈ cr.reg.objs, o.id ∈ alive := by
  unfold World.dropDead at h
  rw [List.mem_map] at h
  obtain ⟨cr0, _, rfl⟩ := h
  intro o ho
  simp only [List.mem_filter, List.contains_eq_mem, decide_eq_true_eq] at ho
  exact ho.2

/-- **no loss while referenced**: a node reachable from a held handle survives a collection, together with its
    registry entries (name and canonical-form keys), in every class -/
theorem collect_keeps_reachable (w : World) (x : Nat) (h : x ∈ w.reachable) :
    (∀ n ∈ w.nodes, n.id = x → n ∈ w.collect.nodes) ∧
    (∀ (c : Nat) (cr : ClassReg CKey) (o : Obj CKey), w.cplxs[c]? = some cr → o ∈ cr.reg.objs → o.id = x →
        ∃ cr', w.collect.cplxs[c]? = some cr' ∧ o ∈ cr'.reg.objs) ∧
    (∀ (c : Nat) (cr : ClassReg DKey) (o : Obj DKey), w.doms[c]? = some cr → o ∈ cr.reg.objs → o.id = x →
        ∃ cr', w.collect.doms[c]? = some cr' ∧ o ∈ cr'.reg.objs) := by
  refine ⟨?_, ?_, ?_⟩
  · intro n hn hx
    simp only [World.collect, List.mem_filter, List.contains_eq_mem, decide_eq_true_eq]
    exact ⟨hn, by rw [hx]; exact h⟩
  · intro c cr o hc ho hx
    refine ⟨_, dropDead_get w.cplxs w.reachable c cr hc, ?_⟩
    simp only [List.mem_filter, List.contains_eq_mem, decide_eq_true_eq]
    exact ⟨ho, by rw [hx]; exact h⟩
  · intro c cr o hc ho hx
    refine ⟨_, dropDead_get w.doms w.reachable c cr hc, ?_⟩
    simp only [List.mem_filter, List.contains_eq_mem, decide_eq_true_eq]
    exact ⟨ho, by rw [hx]; exact h⟩

/-- **released when unreferenced**: after a collection every remaining node and every remaining registry entry
    is reachable from a held handle — nothing else keeps an object alive -/
theorem collect_drops_unreachable (w : World) :
    (∀ n ∈ w.collect.nodes, n.id ∈ w.reachable) ∧
    (∀ cr ∈ w.collect.doms, ∀ o ∈ cr.reg.objs, o.id ∈ w.reachable) ∧
    (∀ cr ∈ w.collect.strands, ∀ o ∈ cr.reg.objs, o.id ∈ w.reachable) ∧
    (∀ cr ∈ w.collect.cplxs, ∀ o ∈ cr.reg.objs, o.id ∈ w.reachable) ∧
    (∀ cr ∈ w.collect.macros, ∀ o ∈ cr.reg.objs, o.id ∈ w.reachable) ∧
    (∀ cr ∈ w.collect.rxns, ∀ o ∈ cr.reg.objs, o.id ∈ w.reachable) := by
  refine ⟨?_, ?_, ?_, ?_, ?_, ?_⟩
  · intro n hn
    simp only [World.collect, List.mem_filter, List.contains_eq_mem, decide_eq_true_eq] at hn
    exact hn.2
  · intro cr hcr; exact dropDead_mem w.doms w.reachable cr hcr
  · intro cr hcr; exact dropDead_mem w.strands w.reachable cr hcr
  · intro cr hcr; exact dropDead_mem w.cplxs w.reachable cr hcr
  · intro cr hcr; exact dropDead_mem w.macros w.reachable cr hcr
  · intro cr hcr; exact dropDead_mem w.rxns w.reachable cr hcr

/-- dropping a handle that nothing else reaches frees the object: it is no longer live and its name is free
    in its class registry -/
theorem drop_releases (w : World) (id : Nat) (hun : id ∉ ({ w with held := w.held.filter (· != id) } : World).reachable) :
    (w.drop id).isLive id = false ∧
    (∀ cr ∈ (w.drop id).cplxs, ∀ o ∈ cr.reg.objs, o.id ≠ id) ∧ (∀ cr ∈ (w.drop id).doms, ∀ o ∈ cr.reg.objs, o.id ≠ id) := by
  obtain ⟨h1, h2, _, h4, _, _⟩ := collect_drops_unreachable ({ w with held := w.held.filter (· != id) } : World)
  refine ⟨?_, ?_, ?_⟩
  · unfold World.isLive World.node World.drop
    cases hf : List.find? (fun n => n.id == id) (World.collect { w with held := w.held.filter (· != id) }).nodes with
    | none => rfl
    | some n =>
      exfalso
      have hm := List.mem_of_find?_eq_some hf
      have he : n.id = id := by simpa using List.find?_some hf
      exact hun (he ▸ h1 n hm)
  · intro cr hcr o ho he
    exact hun (he ▸ h4 cr hcr o ho)
  · intro cr hcr o ho he
    exact hun (he ▸ h2 cr hcr o ho)

/-- **queries and turns assignments add no references**: the reference graph, the handles and all registries are untouched -/
theorem query_no_edges (w : World) (id : Nat) (v : View) :
    (w.queryC id v).1.nodes = w.nodes ∧ (w.queryC id v).1.held = w.held ∧ (w.queryC id v).1.cplxs = w.cplxs ∧
    (w.queryC id v).1.doms = w.doms ∧ (w.queryC id v).1.nextId = w.nextId := by
  unfold World.queryC
  cases w.cstate.lookup id with
  | none => simp
  | some o => simp [World.cset]

theorem setTurns_no_edges (w : World) (id : Nat) (v : Int) :
    (w.setTurns id v).1.nodes = w.nodes ∧ (w.setTurns id v).1.held = w.held ∧ (w.setTurns id v).1.cplxs = w.cplxs ∧
    (w.setTurns id v).1.doms = w.doms := by
  unfold World.setTurns
  cases w.cstate.lookup id with
  | none => simp
  | some o => simp [World.cset]

/-- **refused requests add no references**: an outcome that is not an object leaves nodes and handles unchanged -/
theorem refused_adds_no_edges (w : World) (out : Out) (kind : Kind) (cls : Nat) (children : List Nat)
    (h : ∀ id c, out ≠ .ret id c) : (w.settle out kind cls children).nodes = w.nodes ∧ (w.settle out kind cls children).held = w.held ∧
      (w.settle out kind cls children).nextId = w.nextId := by
  unfold World.settle
  cases out with
  | ret id c => exact absurd rfl (h id c)
  | _ => simp

/-! ### C15: class independence -/

/-- a request against class `c` of a kind touches only that class's registry of that kind -/
theorem withClass_frame {κ} (cs : List (ClassReg κ)) (c : Nat) (f : Reg κ → Reg κ × Out) (c' : Nat) (h : c' ≠ c) :
    ((World.withClass cs c f).1[c']?).map (·.reg.objs) = (cs[c']?).map (·.reg.objs) ∧
    (World.withClass cs c f).1.length = cs.length := by
  unfold World.withClass
  cases hc : cs[c]? with
  | none => simp
  | some cr =>
    simp only
    constructor
    · rw [List.getElem?_set_ne (by omega)]
    · simp

/-- `settle` only touches nodes, handles and the id counter -/
theorem settle_frame (w : World) (out : Out) (kind : Kind) (cls : Nat) (children : List Nat) :
    (w.settle out kind cls children).doms = w.doms ∧ (w.settle out kind cls children).strands = w.strands ∧
    (w.settle out kind cls children).cplxs = w.cplxs ∧ (w.settle out kind cls children).macros = w.macros ∧
    (w.settle out kind cls children).rxns = w.rxns ∧ (w.settle out kind cls children).cstate = w.cstate := by
  unfold World.settle
  split <;> simp

theorem mkDom_eq (w : World) (c : Nat) (q : DomReq) :
    w.mkDom c q =
      (({ w with doms := (World.withClass w.doms c (fun r => domainRequest
            { ((w.cfg[c]?).getD {}) with prefix_ := World.effPrefix w.doms 5 c } r w.nextId q)).1 } : World).settle
          (World.withClass w.doms c (fun r => domainRequest
            { ((w.cfg[c]?).getD {}) with prefix_ := World.effPrefix w.doms 5 c } r w.nextId q)).2 .dom c [],
       (World.withClass w.doms c (fun r => domainRequest
            { ((w.cfg[c]?).getD {}) with prefix_ := World.effPrefix w.doms 5 c } r w.nextId q)).2) := rfl

theorem mkDom_frame (w : World) (c : Nat) (q : DomReq) :
    (w.mkDom c q).1.strands = w.strands ∧ (w.mkDom c q).1.cplxs = w.cplxs ∧ (w.mkDom c q).1.macros = w.macros ∧
    (w.mkDom c q).1.rxns = w.rxns ∧ ∀ c', c' ≠ c → ((w.mkDom c q).1.doms[c']?).map (·.reg.objs) = (w.doms[c']?).map (·.reg.objs) := by
  rw [mkDom_eq]
  obtain ⟨h1, h2, h3, h4, h5, _⟩ := settle_frame
    ({ w with doms := (World.withClass w.doms c (fun r => domainRequest
            { ((w.cfg[c]?).getD {}) with prefix_ := World.effPrefix w.doms 5 c } r w.nextId q)).1 } : World)
    (World.withClass w.doms c (fun r => domainRequest
            { ((w.cfg[c]?).getD {}) with prefix_ := World.effPrefix w.doms 5 c } r w.nextId q)).2 .dom c []
  refine ⟨h2, h3, h4, h5, ?_⟩
  intro c' hc'
  simp only [h1]
  exact (withClass_frame w.doms c _ c' hc').1

theorem mkCplx_frame (w : World) (c : Nat) (seq : Option (List (Option Nat))) (sst : List Char) (name pfx : Option String) :
    (w.mkCplx c seq sst name pfx).1.doms = w.doms ∧ (w.mkCplx c seq sst name pfx).1.strands = w.strands ∧
    (w.mkCplx c seq sst name pfx).1.macros = w.macros ∧ (w.mkCplx c seq sst name pfx).1.rxns = w.rxns ∧
    ∀ c', c' ≠ c → ((w.mkCplx c seq sst name pfx).1.cplxs[c']?).map (·.reg.objs) = (w.cplxs[c']?).map (·.reg.objs) := by
  unfold World.mkCplx
  simp only
  cases hc : w.cplxs[c]? with
  | none => simp
  | some cr =>
    simp only
    generalize complexRequest (World.effPrefix w.cplxs 5 c) { cr.reg with autoId := World.effId w.cplxs 5 c } w.nextId
      { seq := seq.map (fun s => (w.seqNames s).getD []), sst := sst, name := name, prefix_ := pfx } = res
    obtain ⟨r', out, ids⟩ := res
    simp only
    obtain ⟨h1, h2, h3, h4, h5, _⟩ := settle_frame
      ({ w with cplxs := w.cplxs.set c { cr with reg := r', ownId := cr.ownId || r'.autoId != World.effId w.cplxs 5 c } } : World)
      out .cplx c ((seq.getD []).filterMap id)
    split <;> (simp only [h1, h2, h3, h4, h5]; refine ⟨trivial, trivial, trivial, trivial, ?_⟩; intro c' hc'; rw [List.getElem?_set_ne (by omega)])

/-- the sorted name lists of the classes of one kind -/
def namesOf {κ} (cs : List (ClassReg κ)) : List (List String) :=
  cs.map (fun cr => cr.reg.names.mergeSort (fun a b => !strLt b a))

theorem allNames_eq (w : World) :
    w.allNames = namesOf w.doms ++ namesOf w.strands ++ namesOf w.cplxs ++ namesOf w.macros ++ namesOf w.rxns := rfl

theorem namesOf_set {κ} (cs : List (ClassReg κ)) (c : Nat) (cr cr' : ClassReg κ) (hc : cs[c]? = some cr)
    (hobj : cr'.reg.objs = cr.reg.objs) : namesOf (cs.set c cr') = namesOf cs := by
  unfold namesOf
  apply List.ext_getElem?
  intro i
  simp only [List.getElem?_map, List.getElem?_set]
  by_cases hi : c = i
  · subst hi
    have hlt : c < cs.length := (List.getElem?_eq_some_iff.mp hc).1
    simp only [hlt, if_true, hc, Option.map_some]
    unfold Reg.names; rw [hobj]
  · simp [hi]

/-- a domain request that does not return an object leaves the objects of its class registry unchanged -/
theorem withClass_dom_refused (cs : List (ClassReg DKey)) (c : Nat) (cfg : DomCfg) (fresh : Nat) (q : DomReq)
    (h : ∀ id cr, (World.withClass cs c (fun r => domainRequest cfg r fresh q)).2 ≠ .ret id cr) :
    namesOf (World.withClass cs c (fun r => domainRequest cfg r fresh q)).1 = namesOf cs := by
  unfold World.withClass at h ⊢
  cases hc : cs[c]? with
  | none => simp
  | some cr =>
    simp only [hc] at h ⊢
    rcases DomL.domainRequest_spec cfg { cr.reg with autoId := World.effId cs 5 c } fresh q with
      ⟨h1, _⟩ | ⟨L, hreq, _⟩
    · apply namesOf_set cs c cr _ hc
      simp only
      rw [h1]
    · exfalso
      rw [hreq] at h
      exact h fresh true rfl

/-- a refused domain request leaves the observable world unchanged: handles, nodes, live objects of every class -/
theorem failed_request_no_trace (w : World) (c : Nat) (q : DomReq) (h : ∀ id cr, (w.mkDom c q).2 ≠ .ret id cr) :
    (w.mkDom c q).1.nodes = w.nodes ∧ (w.mkDom c q).1.held = w.held ∧ (w.mkDom c q).1.allNames = w.allNames := by
  rw [mkDom_eq] at h ⊢
  simp only at h ⊢
  obtain ⟨e1, e2, _⟩ := refused_adds_no_edges
    ({ w with doms := (World.withClass w.doms c (fun r => domainRequest
            { ((w.cfg[c]?).getD {}) with prefix_ := World.effPrefix w.doms 5 c } r w.nextId q)).1 } : World)
    _ .dom c [] h
  obtain ⟨h1, h2, h3, h4, h5, _⟩ := settle_frame
    ({ w with doms := (World.withClass w.doms c (fun r => domainRequest
            { ((w.cfg[c]?).getD {}) with prefix_ := World.effPrefix w.doms 5 c } r w.nextId q)).1 } : World)
    (World.withClass w.doms c (fun r => domainRequest
            { ((w.cfg[c]?).getD {}) with prefix_ := World.effPrefix w.doms 5 c } r w.nextId q)).2 .dom c []
  refine ⟨e1, e2, ?_⟩
  rw [allNames_eq, allNames_eq, h1, h2, h3, h4, h5]
  simp only
  rw [withClass_dom_refused w.doms c _ w.nextId q h]

end Dsd.C05
