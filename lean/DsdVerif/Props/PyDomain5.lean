/-
`DomainS.identifiers` AS WRITTEN against the model, under the relation `RelatedF` between the nested request of the code and of the
model that the real request can satisfy: `tmp` (the identity a nested request gives to an object it creates) is not the identity of a
live object (`Fresh`), and is free again once the value of the nested request has been released.

Done here: `RelatedF`; the three branches with nested requests re-derived under it; `tmp` free again after `identifiers`; ONE theorem
for every request that `identifiers` itself makes (`py_identifiers_named`) - what the induction on the nesting depth consumes - and the
base of that induction.  NOT done: the induction step (`requestPy (fuel+1)` from `py_identifiers_named` + `PyDomain4.py_zoom_call` +
`PyDomain4.py_register_eq`), hence `requestPy = DomFull.domainRequestFull` up to `RepX` and the transfers of
`complement_lengths_agree` / `conflict_raises`.
-/
import DsdVerif.Lemmas.PyDomainEqFresh4

namespace Dsd.PyDomain5
open Dsd Dsd.Gen Dsd.PyDomainEq

theorem py_identifiers_starred_length_F (request : Py.Dom.Req → Py.Dom.M Nat) (nested : Reg DKey → DomReq → Reg DKey × Out) (tmp : Nat)
    (hrel : RelatedF request nested tmp) (s : Py.Dom.Cls) (r : Reg DKey) (h : RepX s r) (hf : Fresh r tmp) (cfg : DomCfg)
    (n : String) (hne : n ≠ "") (hst : isStarred n = true) (l : Nat) (pfx : Option String) :
    ∃ s', RepX s' (DomFull.identifiers nested cfg r { name := some n, length := some l, prefix_ := pfx }).1 ∧
      (py_DomainS_identifiers request tmp cfg.cutoff cfg.shortLen cfg.longLen cfg.prefix_ (some n) (some l) pfx none).exec s =
        (toIdents (DomFull.identifiers nested cfg r { name := some n, length := some l, prefix_ := pfx }).2, s') :=
  identifiers_starred_length_F request nested tmp hrel s r h hf cfg n hne hst l pfx

theorem py_identifiers_unstarred_length_F (request : Py.Dom.Req → Py.Dom.M Nat) (nested : Reg DKey → DomReq → Reg DKey × Out) (tmp : Nat)
    (hrel : RelatedF request nested tmp) (s : Py.Dom.Cls) (r : Reg DKey) (h : RepX s r) (hf : Fresh r tmp) (cfg : DomCfg)
    (n : String) (hne : n ≠ "") (hst : isStarred n = false) (l : Nat) (pfx : Option String) :
    ∃ s', RepX s' (DomFull.identifiers nested cfg r { name := some n, length := some l, prefix_ := pfx }).1 ∧
      (py_DomainS_identifiers request tmp cfg.cutoff cfg.shortLen cfg.longLen cfg.prefix_ (some n) (some l) pfx none).exec s =
        (toIdents (DomFull.identifiers nested cfg r { name := some n, length := some l, prefix_ := pfx }).2, s') :=
  identifiers_unstarred_length_F request nested tmp hrel s r h hf cfg n hne hst l pfx

theorem py_identifiers_starred_nolength_F (request : Py.Dom.Req → Py.Dom.M Nat) (nested : Reg DKey → DomReq → Reg DKey × Out) (tmp : Nat)
    (hrel : RelatedF request nested tmp) (s : Py.Dom.Cls) (r : Reg DKey) (h : RepX s r) (hf : Fresh r tmp) (cfg : DomCfg)
    (n : String) (hne : n ≠ "") (hst : isStarred n = true) (pfx : Option String) :
    ∃ s', RepX s' (DomFull.identifiers nested cfg r { name := some n, prefix_ := pfx }).1 ∧
      (py_DomainS_identifiers request tmp cfg.cutoff cfg.shortLen cfg.longLen cfg.prefix_ (some n) none pfx none).exec s =
        (toIdents (DomFull.identifiers nested cfg r { name := some n, prefix_ := pfx }).2, s') :=
  identifiers_starred_nolength_F request nested tmp hrel s r h hf cfg n hne hst pfx

/-- once every temporary has been released, `tmp` is free again (model side) -/
theorem model_identTail_fresh (request : Py.Dom.Req → Py.Dom.M Nat) (nested : Reg DKey → DomReq → Reg DKey × Out) (tmp : Nat)
    (hrel : RelatedF request nested tmp) (r : Reg DKey) (hf : Fresh r tmp) (n : String) (l : Option Nat) :
    Fresh (DomFull.identTail nested r n l).1 tmp :=
  identTail_fresh request nested tmp hrel r hf n l

/-- **(c) for every request `identifiers` itself makes** (a name - also the empty one -, maybe a length): the translated `identifiers`
    and the model's correspond, the class afterwards represents the registry afterwards, and `tmp` is free again -/
theorem py_identifiers_named (request : Py.Dom.Req → Py.Dom.M Nat) (nested : Reg DKey → DomReq → Reg DKey × Out) (tmp : Nat)
    (hrel : RelatedF request nested tmp) (s : Py.Dom.Cls) (r : Reg DKey) (h : RepX s r) (hf : Fresh r tmp) (cfg : DomCfg)
    (n : String) (l : Option Nat) :
    ∃ s', RepX s' (DomFull.identifiers nested cfg r { name := some n, length := l }).1 ∧
      (py_DomainS_identifiers request tmp cfg.cutoff cfg.shortLen cfg.longLen cfg.prefix_ (some n) l none none).exec s =
        (toIdents (DomFull.identifiers nested cfg r { name := some n, length := l }).2, s') ∧
      Fresh (DomFull.identifiers nested cfg r { name := some n, length := l }).1 tmp :=
  identifiers_named_F request nested tmp hrel s r h hf cfg n l

/-- (d) base of the induction on the nesting depth -/
theorem py_relatedF_zero (cfg : DomCfg) (tmp : Nat) :
    RelatedF (PyDomainRequest.requestPy cfg.cutoff cfg.shortLen cfg.longLen cfg.prefix_ 0 tmp tmp)
      (fun r q => DomFull.callF 0 cfg r tmp tmp q) tmp :=
  relatedF_zero cfg tmp

#print axioms py_identifiers_starred_length_F
#print axioms py_identifiers_unstarred_length_F
#print axioms py_identifiers_starred_nolength_F
#print axioms model_identTail_fresh
#print axioms py_identifiers_named
#print axioms py_relatedF_zero

end Dsd.PyDomain5
