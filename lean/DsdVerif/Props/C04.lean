/- C04 — domain complementarity: theorems are in Props/C04Dom.lean. -/
import DsdVerif.Props.C04Dom
import DsdVerif.Props.PyExprs
import DsdVerif.Props.C04Full
