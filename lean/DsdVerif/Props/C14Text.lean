import DsdVerif.Props.C14SigmaCplx
import DsdVerif.Props.C12Text
import DsdVerif.Lemmas.TextSigma

namespace Dsd.C14
open Dsd Dsd.PP Dsd.Gen Dsd.RState
open Dsd.TextSig (renderSys TextSys DeclText StrandText CplxText KernText KText render_parses)

/-! C14 end to end on TEXT: the model of `read_pil(text)` is `readDoc (parseDoc text)`.  A declared system is
rendered as text (`TextSig.renderSys`, one statement per line: `length n = tok`, `sequence n = SEQ`,
`strand s = d1 d2 …`, `structure c = s1 + s2 : dotbracket`, `k = <kernel string>` with an optional
` @mode value unit`); the PIL parser turns the text into exactly the token trees of the `read_*_sigma` theorems
(`TextSig.render_parses`, from C13 `document_rt` and the `stmtText_*` instances); hence the conclusions of those
theorems hold for the text.  The textual side conditions are `TextSig.TextSys`: names are PIL identifiers, length
tokens are `short` / `long` / digits, sequences are letters, strand and complex members are domain names, structures
are dot-bracket strings, kernel names are `C13.LegalNames`. -/

/-- the model of `read_pil(text)` on the fresh state: parse, then read the lines -/
def readPil (sl : Slots) (text : String) : Option (RState × Except RErr RDict) :=
  (parseDoc pil_env pil_grammar text).map (fun lines => ({} : RState).readDoc sl [] [] lines {})

/-- a PIL identifier is a base name in the sense of the reader theorems (non-empty, no trailing star) -/
theorem baseName_of_ident (n : String) (h : C13.Ident n.toList) : Sig.BaseName n := by
  obtain ⟨h1, h2⟩ := h
  refine ⟨fun e => h1 (by rw [e]; rfl), ?_⟩
  unfold isStarred
  cases hl : n.toList.getLast? with
  | none => rfl
  | some c =>
    have hc : c ∈ n.toList := List.mem_of_getLast? hl
    have : c ≠ '*' := fun e => Pil.outside_facts '*' (by decide) (e ▸ h2 c hc)
    simp [this]

/-- **Stage 1/2 on text (lengths and sequences).**  The rendered domain declarations parse to `Sig.doc ds`, the read
    succeeds, and the dictionary and objects are as `read_sequences_sigma` says. -/
theorem read_pil_domains_text (sl : Slots) (hdom : sl.dom < 4) (ds : List Sig.Decl) (hne : ds ≠ [])
    (hsys : Sig.Sys ds) (ht : ∀ d ∈ ds, DeclText d) :
    ∃ lines s' d', parseDoc pil_env pil_grammar (renderSys ds [] [] []) = some lines ∧
      ({} : RState).readDoc sl [] [] lines {} = (s', .ok d') ∧
      d'.domains.map (·.1) = ds.flatMap (fun d => [d.name, d.name ++ "*"]) ∧ (d'.domains.map (·.1)).Nodup ∧
      d'.strands = [] ∧ d'.complexes = [] ∧ d'.macrostates = [] ∧ d'.det = [] ∧ d'.con = [] ∧ d'.other = 0 ∧
      ∀ d ∈ ds, DeclRead sl s' d' d := by
  have hp := render_parses ds [] [] [] ⟨ht, by simp, by simp, by simp⟩
    (by cases ds with
        | nil => exact absurd rfl hne
        | cons d ds => simp [TextSig.items])
  obtain ⟨s', d', h⟩ := read_sequences_sigma sl hdom ds hsys
  refine ⟨_, s', d', hp, ?_⟩
  simpa [Sig.sdoc, Sig.cdoc, Sig.kdoc] using h

/-- **Stage 3 on text (composite domains).** -/
theorem read_pil_strands_text (sl : Slots) (hdom : sl.dom < 4) (hstr : sl.strand < 4) (ds : List Sig.Decl)
    (hne : ds ≠ []) (hsys : Sig.Sys ds) (ss : List Sig.SDecl) (hss : Sig.SSys ds ss)
    (ht : ∀ d ∈ ds, DeclText d) (hts : ∀ p ∈ ss, StrandText p) :
    ∃ lines s' d', parseDoc pil_env pil_grammar (renderSys ds ss [] []) = some lines ∧
      ({} : RState).readDoc sl [] [] lines {} = (s', .ok d') ∧
      d'.domains.map (·.1) = ds.flatMap (fun d => [d.name, d.name ++ "*"]) ∧ (d'.domains.map (·.1)).Nodup ∧
      d'.strands.map (·.1) = ss.map (·.1) ∧ (d'.strands.map (·.1)).Nodup ∧
      d'.complexes = [] ∧ d'.macrostates = [] ∧ d'.det = [] ∧ d'.con = [] ∧ d'.other = 0 ∧
      (∀ d ∈ ds, DeclRead sl s' d' d) ∧ (∀ p ∈ ss, StrandRead sl s' d' p) := by
  have hp := render_parses ds ss [] [] ⟨ht, hts, by simp, by simp⟩
    (by cases ds with
        | nil => exact absurd rfl hne
        | cons d ds => simp [TextSig.items])
  obtain ⟨s', d', h⟩ := read_strands_sigma sl hdom hstr ds hsys ss hss
  refine ⟨_, s', d', hp, ?_⟩
  simpa [Sig.cdoc, Sig.kdoc] using h

/-- **Stage 4 on text (strand-notation complexes, `structure` form).** -/
theorem read_pil_complexes_text (sl : Slots) (hdom : sl.dom < 4) (hstr : sl.strand < 4) (hcx : sl.cplx < 4)
    (ds : List Sig.Decl) (hne : ds ≠ []) (hsys : Sig.Sys ds) (ss : List Sig.SDecl) (hss : Sig.SSys ds ss)
    (cds : List Sig.CDecl)
    (hstrands : ∀ c ∈ cds, c.strands ≠ [] ∧ ∀ n ∈ c.strands, n ∈ ss.map (·.1))
    (hdescr : ∀ c ∈ cds, C02.Descr (c.spec ds ss).ns c.sst)
    (hnames : (cds.map (·.name)).Nodup)
    (hnonrot : cds.Pairwise (fun a b => ((b.spec ds ss).ns, b.sst) ∉
      C02.orbit (C02.nStrands (a.spec ds ss).ns) (a.spec ds ss).ns a.sst))
    (ht : ∀ d ∈ ds, DeclText d) (hts : ∀ p ∈ ss, StrandText p) (htc : ∀ c ∈ cds, CplxText c) :
    ∃ lines s' d', parseDoc pil_env pil_grammar (renderSys ds ss cds []) = some lines ∧
      ({} : RState).readDoc sl [] [] lines {} = (s', .ok d') ∧
      d'.domains.map (·.1) = ds.flatMap (fun d => [d.name, d.name ++ "*"]) ∧ (d'.domains.map (·.1)).Nodup ∧
      d'.strands.map (·.1) = ss.map (·.1) ∧ (d'.strands.map (·.1)).Nodup ∧
      d'.complexes.map (·.1) = cds.map (·.name) ∧ (d'.complexes.map (·.1)).Nodup ∧
      d'.macrostates = [] ∧ d'.det = [] ∧ d'.con = [] ∧ d'.other = 0 ∧
      (∀ d ∈ ds, DeclRead sl s' d' d) ∧ (∀ p ∈ ss, StrandRead sl s' d' p) ∧
      (∀ c ∈ cds, CplxRead sl s' d' c.name (c.spec ds ss).ns c.sst) := by
  have hp := render_parses ds ss cds [] ⟨ht, hts, htc, by simp⟩
    (by cases ds with
        | nil => exact absurd rfl hne
        | cons d ds => simp [TextSig.items])
  obtain ⟨s', d', h⟩ := read_scomplexes_sigma sl hdom hstr hcx ds hsys ss hss cds hstrands hdescr hnames hnonrot
  refine ⟨_, s', d', hp, ?_⟩
  simpa [Sig.kdoc] using h

/-- the reader resolves the pattern of a rendered kernel complex back to the written names and structure -/
theorem ktext_resolves (k : KText) (t : List (Option Nat)) (h : C12.KDescr k.seq k.sst t)
    (hc : C12.Complementary k.seq t) (hsz : treeSize 1000 k.decl.pat < 1000) :
    resolveKernel (treeSize 1000 k.decl.pat + 2) k.decl.pat = .ok (k.decl.ns, k.decl.sst) := by
  obtain ⟨toks, ht⟩ := C12.kernelTokens_total k.seq k.sst t h
  have hpat : k.decl.pat = toks := by simp [KText.decl, ht]
  rw [hpat] at hsz ⊢
  exact C12.resolveKernel_budget toks _ _ (C12.resolve_kernel_inverse k.seq k.sst t h hc toks ht) hsz

/-- **Stage 5 on text (kernel-notation complexes).**  Each kernel complex is written as `name = <kernel string>`
    (optionally with a concentration); its description is balanced and aligned (`C12.KDescr`), paired positions
    carry complementary names, and the pattern fits the reader's recursion budget.  The remaining hypotheses are
    those of `read_kernels_sigma`. -/
theorem read_pil_kernels_text (sl : Slots) (hdom : sl.dom < 4) (hstr : sl.strand < 4) (hcx : sl.cplx < 4)
    (ds : List Sig.Decl) (hne : ds ≠ []) (hsys : Sig.Sys ds) (ss : List Sig.SDecl) (hss : Sig.SSys ds ss)
    (cds : List Sig.CDecl) (kts : List KText)
    (hstrands : ∀ c ∈ cds, c.strands ≠ [] ∧ ∀ n ∈ c.strands, n ∈ ss.map (·.1))
    (hker : ∀ k ∈ kts, ∃ t, C12.KDescr k.seq k.sst t ∧ C12.Complementary k.seq t ∧ treeSize 1000 k.decl.pat < 1000)
    (hkdoms : ∀ k ∈ kts, ∀ n ∈ k.seq, n ≠ "+" → ∃ d ∈ ds, n = d.name ∨ n = d.name ++ "*")
    (hdescr : ∀ c ∈ cds.map (Sig.CDecl.spec ds ss) ++ (kts.map KText.decl).map (Sig.KDecl.spec ds),
      C02.Descr c.ns c.sst)
    (hnames : ((cds.map (Sig.CDecl.spec ds ss) ++ (kts.map KText.decl).map (Sig.KDecl.spec ds)).map (·.name)).Nodup)
    (hnonrot : (cds.map (Sig.CDecl.spec ds ss) ++ (kts.map KText.decl).map (Sig.KDecl.spec ds)).Pairwise
      (fun a b => (b.ns, b.sst) ∉ C02.orbit (C02.nStrands a.ns) a.ns a.sst))
    (ht : TextSys ds ss cds kts) :
    ∃ lines s' d', parseDoc pil_env pil_grammar (renderSys ds ss cds kts) = some lines ∧
      ({} : RState).readDoc sl [] [] lines {} = (s', .ok d') ∧
      d'.domains.map (·.1) = ds.flatMap (fun d => [d.name, d.name ++ "*"]) ∧ (d'.domains.map (·.1)).Nodup ∧
      d'.strands.map (·.1) = ss.map (·.1) ∧ (d'.strands.map (·.1)).Nodup ∧
      d'.complexes.map (·.1) = cds.map (·.name) ++ kts.map (·.name) ∧ (d'.complexes.map (·.1)).Nodup ∧
      d'.macrostates = [] ∧ d'.det = [] ∧ d'.con = [] ∧ d'.other = 0 ∧
      (∀ d ∈ ds, DeclRead sl s' d' d) ∧ (∀ p ∈ ss, StrandRead sl s' d' p) ∧
      (∀ c ∈ cds, CplxRead sl s' d' c.name (c.spec ds ss).ns c.sst) ∧
      (∀ k ∈ kts, CplxRead sl s' d' k.name k.seq k.sst ∧
        ∃ id, d'.complexes.lookup k.name = some id ∧ s'.conc.lookup id = k.conc) := by
  have hp := render_parses ds ss cds kts ht
    (by cases ds with
        | nil => exact absurd rfl hne
        | cons d ds => simp [TextSig.items])
  have hres : ∀ k ∈ kts.map KText.decl, resolveKernel (treeSize 1000 k.pat + 2) k.pat = .ok (k.ns, k.sst) := by
    intro k hk
    obtain ⟨kt, hkt, rfl⟩ := List.mem_map.mp hk
    obtain ⟨t, h1, h2, h3⟩ := hker kt hkt
    exact ktext_resolves kt t h1 h2 h3
  have hkd : ∀ k ∈ kts.map KText.decl, ∀ n ∈ k.ns, n ≠ "+" → ∃ d ∈ ds, n = d.name ∨ n = d.name ++ "*" := by
    intro k hk
    obtain ⟨kt, hkt, rfl⟩ := List.mem_map.mp hk
    exact hkdoms kt hkt
  obtain ⟨s', d', h1, h2, h3, h4, h5, h6, h7, h8, h9, h10, h11, h12, h13, h14, h15⟩ :=
    read_kernels_sigma sl hdom hstr hcx ds hsys ss hss cds (kts.map KText.decl) hstrands hres hkd hdescr hnames hnonrot
  refine ⟨_, s', d', hp, h1, h2, h3, h4, h5, ?_, h7, h8, h9, h10, h11, h12, h13, h14, ?_⟩
  · rw [h6, List.map_map]; rfl
  · intro k hk
    exact h15 k.decl (List.mem_map_of_mem hk)

/-! ### non-vacuity: the four-statement document of Props/C13Doc.lean, read end to end -/

/-- domains, strands and complexes of the dictionary a read returns -/
def keysOf (r : Option (RState × Except RErr RDict)) : Option (List String × List String × List String) :=
  match r with
  | some (_, .ok d) => some (d.domains.map (·.1), d.strands.map (·.1), d.complexes.map (·.1))
  | _ => none

def txD (tk : String) : List Sig.Decl := [.dl "a" tk 5, .sl "t" "ACGT"]
def txS : List Sig.SDecl := [("s", ["a", "t*"])]
def txK : List KText := [{ name := "X", seq := ["a", "t", "a*"], sst := ['(', '.', ')'], conc := none }]

/-- the rendering of the example system is the document of C13Doc (without its blank line) -/
example : renderSys (txD "5") txS [] txK = "length a = 5\nsequence t = ACGT\nstrand s = a t*\nX = a( t )\n" := by
  decide

theorem tx_sys (tk : String) (htk : Sig.LenTok tk 5) : Sig.Sys (txD tk) := by
  refine ⟨?_, ?_, (by decide : (["a", "t"] : List String).Nodup)⟩
  · intro d hd
    simp only [txD, List.mem_cons, List.not_mem_nil, or_false] at hd
    rcases hd with rfl | rfl
    · exact ⟨(by decide : "a" ≠ ""), (by decide : isStarred "a" = false)⟩
    · exact ⟨by decide, by decide⟩
  · intro d hd
    simp only [txD, List.mem_cons, List.not_mem_nil, or_false] at hd
    rcases hd with rfl | rfl
    · exact htk
    · show ∀ c ∈ "ACGT".toList, c ∈ Iupac.codes .dna
      decide

theorem tx_ssys (tk : String) : Sig.SSys (txD tk) txS := by
  refine ⟨?_, by decide, by decide⟩
  intro p hp n hn
  simp only [txS, List.mem_cons, List.not_mem_nil, or_false] at hp
  subst hp
  simp only [List.mem_cons, List.not_mem_nil, or_false] at hn
  rcases hn with rfl | rfl
  · exact ⟨by decide, 0, _, rfl, Or.inl rfl⟩
  · exact ⟨by decide, 1, _, rfl, Or.inr rfl⟩

theorem tx_legal : C13.LegalNames ["a", "t", "a*"] ['(', '.', ')'] := by
  have ia : C13.Ident ['a'] := C13.ident_single 'a' (by decide)
  have it : C13.Ident ['t'] := C13.ident_single 't' (by decide)
  refine ⟨rfl, ?_⟩
  intro i n c h1 h2
  match i, h1, h2 with
  | 0, h1, h2 =>
    simp at h1 h2; subst h1 h2
    exact ⟨by decide, fun _ => ⟨['a'], false, rfl, ia⟩, by decide⟩
  | 1, h1, h2 =>
    simp at h1 h2; subst h1 h2
    exact ⟨by decide, fun _ => ⟨['t'], false, rfl, it⟩, by decide⟩
  | 2, h1, h2 =>
    simp at h1 h2; subst h1 h2
    exact ⟨by decide, fun _ => ⟨['a'], true, rfl, ia⟩, by decide⟩
  | k + 3, h1, h2 => simp at h1

theorem tx_text (tk : String) (htk : tk = "short" ∨ tk = "long" ∨ C13.Digits tk.toList) :
    TextSys (txD tk) txS [] txK := by
  have ia : C13.Ident ['a'] := C13.ident_single 'a' (by decide)
  have it : C13.Ident ['t'] := C13.ident_single 't' (by decide)
  have is : C13.Ident ['s'] := C13.ident_single 's' (by decide)
  have iX : C13.Ident ['X'] := C13.ident_single 'X' (by decide)
  refine ⟨?_, ?_, by simp, ?_⟩
  · intro d hd
    simp only [txD, List.mem_cons, List.not_mem_nil, or_false] at hd
    rcases hd with rfl | rfl
    · exact ⟨ia, htk⟩
    · exact ⟨it, by decide, by decide⟩
  · intro p hp
    simp only [txS, List.mem_cons, List.not_mem_nil, or_false] at hp
    subst hp
    refine ⟨is, by simp, ?_⟩
    intro n hn
    simp only [List.mem_cons, List.not_mem_nil, or_false] at hn
    rcases hn with rfl | rfl
    · exact ⟨['a'], false, rfl, ia⟩
    · exact ⟨['t'], true, rfl, it⟩
  · intro k hk
    simp only [txK, List.mem_cons, List.not_mem_nil, or_false] at hk
    subst hk
    exact ⟨iX, tx_legal, by decide, ⟨_, rfl⟩, by intro c hc; cases hc⟩

theorem tx_kdescr : C12.KDescr ["a", "t", "a*"] ['(', '.', ')'] [some 2, none, some 0] ∧
    C12.Complementary ["a", "t", "a*"] [some 2, none, some 0] := by
  refine ⟨⟨⟨rfl, ?_⟩, by decide, by decide⟩, ?_⟩
  · intro i
    match i with
    | 0 => decide
    | 1 => decide
    | 2 => decide
    | k + 3 => simp
  · intro i j hij hlt
    match i with
    | 0 => simp [Bracket.P] at hij; subst hij; decide
    | 1 => simp [Bracket.P] at hij
    | 2 => simp [Bracket.P] at hij; omega
    | k + 3 => simp [Bracket.P] at hij

theorem tx_descr : C02.Descr ["a", "t", "a*"] ['(', '.', ')'] := by
  refine ⟨⟨rfl, ?_⟩, ⟨[some 2, none, some 0], by decide⟩, by decide, by decide⟩
  intro i
  match i with
  | 0 => decide
  | 1 => decide
  | 2 => decide
  | k + 3 => simp

/-- **the theorem applied to the document `length a = 5 / sequence t = ACGT / strand s = a t* / X = a( t )`**: the
    read of the text succeeds and the dictionary keys are as displayed.  The only hypothesis left is that Python's
    `int("5")` is 5 (`String.toNat?` does not reduce in the kernel, which is why `Sig.LenTok` exists). -/
example (h5 : "5".toNat? = some 5) :
    ∃ lines s' d', parseDoc pil_env pil_grammar "length a = 5\nsequence t = ACGT\nstrand s = a t*\nX = a( t )\n" = some lines ∧
      ({} : RState).readDoc {} [] [] lines {} = (s', .ok d') ∧
      d'.domains.map (·.1) = ["a", "a*", "t", "t*"] ∧ d'.strands.map (·.1) = ["s"] ∧
      d'.complexes.map (·.1) = ["X"] := by
  have hr : renderSys (txD "5") txS [] txK = "length a = 5\nsequence t = ACGT\nstrand s = a t*\nX = a( t )\n" := by
    decide
  obtain ⟨lines, s', d', h1, h2, h3, _, h4, _, h5', _⟩ :=
    read_pil_kernels_text {} (by decide) (by decide) (by decide) (txD "5") (by decide)
      (tx_sys "5" (Or.inr (Or.inr ⟨by decide, by decide, h5⟩))) txS (tx_ssys "5") [] txK
      (by simp)
      (by
        intro k hk
        simp only [txK, List.mem_cons, List.not_mem_nil, or_false] at hk
        subst hk
        exact ⟨_, tx_kdescr.1, tx_kdescr.2, by decide⟩)
      (by decide)
      (by
        intro c hc
        simp only [txK, List.map_cons, List.map_nil, List.nil_append, List.mem_cons, List.not_mem_nil,
          or_false] at hc
        subst hc
        exact tx_descr)
      (by decide) (by decide)
      (tx_text "5" (Or.inr (Or.inr ⟨by decide, by decide⟩)))
  rw [hr] at h1
  exact ⟨lines, s', d', h1, h2, h3, h4, h5'⟩

/-- the same document with `short` instead of `5`, and with the blank line of the C13Doc example, read end to end by
    evaluation of the model: parser, reader, and the keys of the returned dictionary -/
example :
    keysOf (readPil {} "length a = short\nsequence t = ACGT\n\nstrand s = a t*\nX = a( t )\n") =
      some (["a", "a*", "t", "t*"], ["s"], ["X"]) := by
  rfl

/-- … the parse of the original document (with `5`) is the token document of the example system … -/
example :
    parseDoc pil_env pil_grammar "length a = 5\nsequence t = ACGT\n\nstrand s = a t*\nX = a( t )\n" =
      some (Sig.doc (txD "5") ++ (Sig.sdoc txS ++ (Sig.cdoc [] ++ Sig.kdoc (txK.map KText.decl)))) := by
  rfl

/-- … and the objects behind the keys: the strand's children are the domain singletons `a` (0) and `t*` (3), the
    complex `X` consists of `a`, `t`, `a*` -/
example :
    (match readPil {} "length a = short\nsequence t = ACGT\n\nstrand s = a t*\nX = a( t )\n" with
     | some (s', .ok d') => (d'.domains, d'.strands, d'.complexes, (s'.w.node 4).map (·.children),
         (s'.w.node 5).map (·.children), (s'.w.cstate.lookup 5).map (fun st => (st.seq, st.sst)), s'.dseq)
     | _ => ([], [], [], none, none, none, [])) =
    ([("a", 0), ("a*", 1), ("t", 2), ("t*", 3)], [("s", 4)], [("X", 5)], some [0, 3], some [0, 2, 1],
      some (["a", "t", "a*"], ['(', '.', ')']), [(2, "ACGT"), (3, "ACGT")]) := by
  rfl

end Dsd.C14
