import DsdVerif.Props.C16Reader
import DsdVerif.Lemmas.ReaderRec

namespace Dsd.C16
open Dsd Dsd.PP Dsd.Gen Dsd.RdL

/-! C16, dynamic clause, for arbitrary TEXT: `parseDoc pil_env pil_grammar text` is `none` (ParseException) or
`some lines`; the lines have the shapes `PP.PilLine` — a theorem about the parser model (`PP.run_shape`: what a run
returns has the shape `PP.Shape` of its grammar term, whatever the input; `PP.document_shape`: the analysis of the
regenerated PIL grammar) — and reading them ends with the dictionary or a declared error.

The recursion budget.  `resolve_kernel_loops` recurses once per nesting level of a kernel pattern; the model gives
it the fuel `treeSize 1000 pat + 2`, which a large pattern exceeds (`C16.deepPattern`, kernel-checked in
Props/C16Reader.lean; at text level: `X = a a … a a( a( … ) )` with 998 names and 1100 nested loops parses and the
reader ends in `.fault "RecursionError"` — evaluated with `#eval`, too large for a kernel-checked `example`).  So
for arbitrary text the theorem is: no fault OTHER than this RecursionError (`read_text_faults_only_recursion`); and
no fault at all when the kernel patterns among the parsed lines fit the budget (`read_text_never_faults`).  A
bound in terms of the text length alone is not proved. -/

/-- **the lines of a parsed PIL text**: every element of the result is one group whose tokens form a `PilLine` -/
theorem pil_lines_typed (text : String) (lines : List Tree) (h : parseDoc pil_env pil_grammar text = some lines) :
    ∀ t ∈ lines, ∃ l, t = .grp l ∧ PilLine l :=
  document_shape (parseDoc_shape pil_env pil_grammar text lines h)

/-- how `PilLine` relates to the hypothesis `Typed` of `reader_never_faults`: every `Typed` line is a `PilLine`
    (so `PilLine` is the weaker, grammar-derived condition); `PilLine` drops the conditions the reader does not
    need and the budget of kernel patterns -/
theorem typed_pilLine (l : List Tree) (h : Typed l) : PilLine l := by
  cases h with
  | dl name len hn hl => exact PilLine.dl name len hn hl
  | sl name con hn _ => exact PilLine.sl name con [] hn
  | slLen name con len hn _ => exact PilLine.sl name con [.tok len] hn
  | comp name doms rest _ hd => exact PilLine.comp name doms rest hd.2
  | strandComplex name db strands _ _ => exact PilLine.strandComplex name db strands
  | kernel name pat _ hf _ _ => exact PilLine.kernel name pat [] (forest_k hf)
  | kernelConc name mode value unit pat _ hf _ _ => exact PilLine.kernel name pat _ (forest_k hf)
  | resting name mem _ _ => exact PilLine.resting name mem
  | reactionPlain rs ps _ _ => exact PilLine.reaction [] rs ps
  | reactionInfo ty ra un rs ps _ _ _ _ => exact PilLine.reaction _ rs ps

/-- **reading any text never faults, except for the recursion budget**: the text does not parse, or reading its
    lines returns the dictionary or ends in an error that is a declared one or the RecursionError of a kernel
    pattern beyond the budget -/
theorem read_text_faults_only_recursion (text : String) (sl : Slots) (hsl : SlotsOK sl) (ign : List String) :
    match parseDoc pil_env pil_grammar text with
    | none => True
    | some lines => ∀ s' e, ({} : RState).readDoc sl ign [] lines {} = (s', .error e) →
        ∀ k, e = .fault k → k = "RecursionError" := by
  cases hp : parseDoc pil_env pil_grammar text with
  | none => trivial
  | some lines =>
    intro s' e h
    have hl := pil_lines_typed text lines hp
    refine readDoc_nofaultR sl (slotsOK hsl) ign [] lines {} {} wok_empty ?_ s' e h
    intro t ht l hl'
    obtain ⟨l', hl'', hpl⟩ := hl t ht
    rw [hl'] at hl''
    cases hl''
    exact pilLine_ok hpl

/-- the kernel patterns among the lines fit the recursion budget -/
def KernelBudget (lines : List Tree) : Prop :=
  ∀ name pat rest, .grp (.tok "kernel-complex" :: .tok name :: .grp pat :: rest) ∈ lines → treeSize 1000 pat < 1000

theorem pilLine_lineOK (l : List Tree) (h : PilLine l)
    (hb : ∀ name pat rest, l = .tok "kernel-complex" :: .tok name :: .grp pat :: rest → treeSize 1000 pat < 1000) :
    LineOK l := by
  intro s sl hw hsl
  cases h with
  | dl name len hn hl => exact readLine_dl s sl hw hsl name len [] hn hl
  | sl name con rest hn => exact readLine_sl s sl hw hsl name con rest hn
  | comp name doms rest hd => exact readLine_comp s sl hw hsl name doms rest hd
  | strandComplex name db strands => exact readLine_strandComplex s sl hw hsl name db strands []
  | kernel name pat rest hf =>
    obtain ⟨names, struct, h1, h2, h3⟩ := RdL.resolveKernel_ok pat hf (hb name pat rest rfl)
    exact readLine_kernel s sl hw hsl name pat rest names struct h1 h2 h3
  | resting name mem => exact readLine_resting s sl hw hsl name mem []
  | reaction info rs ps => exact readLine_reaction s sl hw hsl info rs ps []

/-- **reading any text never faults** when the kernel patterns fit the recursion budget: the text does not parse,
    or reading its lines returns the dictionary or one of the declared errors (SingletonError, ObjectInitError,
    SecondaryStructureError, NotImplementedError, an assertion, PilFormatError) -/
theorem read_text_never_faults (text : String) (sl : Slots) (hsl : SlotsOK sl) (ign : List String) :
    match parseDoc pil_env pil_grammar text with
    | none => True
    | some lines => KernelBudget lines →
        ∀ s' e, ({} : RState).readDoc sl ign [] lines {} = (s', .error e) → ∀ k, e ≠ .fault k := by
  cases hp : parseDoc pil_env pil_grammar text with
  | none => trivial
  | some lines =>
    intro hb s' e h
    have hl := pil_lines_typed text lines hp
    refine readDoc_nofault sl (slotsOK hsl) ign [] lines {} {} wok_empty ?_ s' e h
    intro t ht l hl'
    obtain ⟨l', hl'', hpl⟩ := hl t ht
    rw [hl'] at hl''
    cases hl''
    apply pilLine_lineOK l hpl
    intro name pat rest hk
    exact hb name pat rest (by rw [← hk, ← hl']; exact ht)

/-- the shape theorem is generic: it also describes what the seesaw grammar returns -/
theorem ssw_lines_shape (text : String) (lines : List Tree) (h : parseDoc ssw_env ssw_grammar text = some lines) :
    Shape ssw_env ssw_grammar lines := parseDoc_shape ssw_env ssw_grammar text lines h

/-- a checkable form of the budget -/
def budgetOK (lines : List Tree) : Bool :=
  lines.all (fun t => match t with
    | .grp (.tok "kernel-complex" :: .tok _ :: .grp pat :: _) => decide (treeSize 1000 pat < 1000)
    | _ => true)

theorem budgetOK_sound (lines : List Tree) (h : budgetOK lines = true) : KernelBudget lines := by
  intro name pat rest hmem
  have := List.all_eq_true.mp h _ hmem
  simpa using this

/-! #### closed examples -/

/-- what happens to a text: parse error, dictionary (names of the domains and complexes), or the error -/
def outcome (text : String) : Option (Except RErr (List String × List String)) :=
  match parseDoc pil_env pil_grammar text with
  | none => none
  | some lines =>
    match (({} : RState).readDoc {} [] [] lines {}).2 with
    | .ok d => some (.ok (d.domains.map (·.1), d.complexes.map (·.1)))
    | .error e => some (.error e)

/-- a text that parses and reads fine (`short`/`long` rather than digits: `String.toNat?` does not reduce in the
    kernel) -/
example : (match outcome "length a = short\nlength b = long\nX = a( b )\n" with
    | some (.ok (ds, cs)) => ds == ["a", "a*", "b", "b*"] && cs == ["X"] | _ => false) = true := by decide +kernel

/-- texts that parse and are refused with a declared error -/
example : (match outcome "length a = short\nlength a = long\n" with | some (.error .singleton) => true | _ => false) = true := by
  decide +kernel
example : (match outcome "length a = short\nX = a( b )\n" with | some (.error .pilFormat) => true | _ => false) = true := by
  decide +kernel

/-- garbage does not parse -/
example : (match outcome "@@@ what\n" with | none => true | _ => false) = true := by decide +kernel

/-- the budget hypothesis of `read_text_never_faults` holds for a concrete text -/
example : (match parseDoc pil_env pil_grammar "length a = 5\nlength b = 7\nX = a( b )\n" with
    | some lines => budgetOK lines | none => false) = true := by decide +kernel

end Dsd.C16
