/-
`read_pil_line(raw)` of dsdobjects/objectio.py AS WRITTEN, for a parsed statement (statement-level translation Gen/PyReadLine.lean,
translator/pyreaderfn3.py): the dispatch on `line[0]` with the guards `… is not None`, and the branches `dl-domain`, `sl-domain`,
`composite-domain`, `resting-macrostate`, `reaction` (through the translated `read_reaction`) and the final `else`, with every object construction
and attribute assignment a request parameter (`RL.Env ω`) over an opaque object world.  `strand-complex` and `kernel-complex` are raising stubs.

* `py_unconfigured_hands_back`: with all five slots `None` the parsed statement is handed back unchanged and the world is untouched, whatever
  its keyword (every line with at least two items).
* `py_dl_domain_eq_model`: with the request parameters instantiated by the operations of the model's world (`PyReadLineL.modelEnv`: `Domain(…)` is
  `ctorDomain`, …) the translated function on ANY line that starts with `'dl-domain'` is the model's `readLineFull` on it (the branch `lineDl`):
  same object or same exception, same world afterwards.
NOT proved here: the equalities for the other translated branches (for `sl-domain` the model is faithful only when name and constraint are strs).
-/
import DsdVerif.Lemmas.PyReadLine

namespace Dsd.PyReadLine
open Dsd Dsd.PP Dsd.Gen Dsd.ReaderFull Dsd.PyReadLineL

theorem py_unconfigured_hands_back {ω : Type} (env : RL.Env ω) (hg : env.g = {}) (t0 t1 : Tree) (rest : List Tree) (w : ω) :
    Py.MS.exec (py_read_pil_line env (t0 :: t1 :: rest)) w = (.ok (.raw (t0 :: t1 :: rest)), w) :=
  unconfigured env hg t0 t1 rest w

theorem py_dl_domain_eq_model (sl : Slots) (RT : Py.StrSet) (g12 : Py.FloatLit → String) (strL : List Tree → String) (nameT : Tree)
    (rest : List Tree) (s : RState) :
    Py.MS.exec (py_read_pil_line (modelEnv sl RT g12 strL) (.tok "dl-domain" :: nameT :: rest)) s =
      outOf (.tok "dl-domain" :: nameT :: rest) (s.readLineFull sl (.tok "dl-domain" :: nameT :: rest)) :=
  dl_eq sl RT g12 strL nameT rest s

/-- C16 for the branch: a grammar-shaped `dl-domain` line (name a str, length `short` / `long` / decimal digits) never ends in an interpreter
    fault of `read_pil_line` itself: what comes out is what the `Domain(…)` request answers -/
theorem py_dl_domain_no_own_fault {ω : Type} (env : RL.Env ω) (hD : env.g.Domain.isSome = true) (name len : String) (n : Nat)
    (hn : len = "short" ∧ n = 5 ∨ len = "long" ∧ n = 15 ∨ len ≠ "short" ∧ len ≠ "long" ∧ len.toNat? = some n) (w : ω) :
    Py.MS.exec (py_read_pil_line env [.tok "dl-domain", .tok name, .tok len]) w =
      Py.MS.exec (do let h ← env.Domain (.tok name) (some n); pure (RL.Val.obj h)) w := by
  obtain ⟨k, hk⟩ := Option.isSome_iff_exists.1 hD
  rcases hn with ⟨rfl, rfl⟩ | ⟨rfl, rfl⟩ | ⟨h1, h2, h3⟩ <;>
    simp [py_read_pil_line, Py.idx, Py.treeEqStr, Py.treeInt, hk, *] <;> rfl

end Dsd.PyReadLine

#print axioms Dsd.PyReadLine.py_unconfigured_hands_back
#print axioms Dsd.PyReadLine.py_dl_domain_eq_model
#print axioms Dsd.PyReadLine.py_dl_domain_no_own_fault
