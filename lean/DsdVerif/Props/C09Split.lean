import DsdVerif.Model.Complex
import DsdVerif.Lemmas.Locus
import DsdVerif.Lemmas.Loop
import DsdVerif.Props.C06Loci
import DsdVerif.Props.C08Loop
import DsdVerif.Lemmas.Split

namespace Dsd.C09
open Dsd.Bracket Dsd.C06

/-- `part` consists of the strands `idx` (increasing original strand indices) of `(stab, ptab)`:
    same strand contents, and exactly the original pairs, re-indexed -/
structure PartOf {α} (stab : List (List α)) (ptab : PairTable) (part : List (List α) × PairTable) (idx : List Nat) : Prop where
  sorted : idx.Pairwise (· < ·)
  bound : ∀ i ∈ idx, i < ptab.length
  strands : part.1 = idx.filterMap (fun i => stab[i]?)
  rows : part.2.map List.length = idx.filterMap (fun i => (ptab[i]?).map List.length)
  /-- every original pair of a strand of the part stays inside the part (the part is closed under pairing) … -/
  closed : ∀ a d l, a ∈ idx → ptGet ptab (a, d) = some l → l.1 ∈ idx
  /-- … and the part's table is the original one with strand indices renamed by position in `idx` -/
  pairs : ∀ (a : Nat) d, a < idx.length →
    ptGet part.2 (a, d) = (ptGet ptab (idx.getD a 0, d)).map (fun l => (idx.idxOf l.1, l.2))

/-- **Splitting yields exactly the connected components** (utility level).
    For a well-formed structure with `n` strands (and a strand table of the same length) the split succeeds with
    enough fuel, and the parts (1) partition the strands — each part keeps its strands in their original order
    with unchanged content —, (2) carry exactly the original base pairs and no others, (3) are each connected and
    (4) are closed under pairing; hence they are the connected components of the strand-pairing graph. -/
theorem split_spec {α} (ss : List Char) (brk : Char) (ptab : PairTable) (stab : List (List α))
    (h : makePairTable ss brk = .ok ptab) (hs : stab.length = ptab.length) :
    ∃ (parts : List (List (List α) × PairTable)) (idxs : List (List Nat)), splitPt (ptab.length + 1) stab ptab = .ok parts ∧
      idxs.length = parts.length ∧
      (∀ (k : Nat) part idx, parts[k]? = some part → idxs[k]? = some idx → PartOf stab ptab part idx ∧ idx ≠ []) ∧
      (idxs.flatten.Perm (List.range ptab.length)) ∧
      (∀ part ∈ parts, ∃ lo, makeLoopIndex part.2 false = .ok lo) := by
  obtain ⟨syms, t, L, _⟩ := Split.mpt_linF ss brk ptab h
  have hlen : 1 ≤ ptab.length := by
    have e := congrArg List.length (mpt_shape ss brk ptab h)
    simp only [List.length_map] at e
    have : (splitOn brk ss).length ≠ 0 := fun e0 => splitOn_ne_nil brk ss (List.length_eq_zero_iff.mp e0)
    omega
  obtain ⟨parts, idxs, f, l, q, r, c⟩ := Split.split_gen ptab.length stab ptab syms L.lm rfl hlen hs
  refine ⟨parts, idxs, f, l, ?_, r, c⟩
  intro k part idx hp hi
  obtain ⟨p, hne⟩ := q k part idx hp hi
  exact ⟨⟨p.pt.sorted, p.pt.bound, p.strands, p.pt.rows, p.pt.closed, p.pt.pairs⟩, hne⟩

/-- a connected complex is returned unchanged -/
theorem split_connected_id {α} (ss : List Char) (brk : Char) (ptab : PairTable) (stab : List (List α))
    (h : makePairTable ss brk = .ok ptab) (hs : stab.length = ptab.length) (hn : ptab ≠ [])
    (lo : LoopOut) (hc : makeLoopIndex ptab false = .ok lo) :
    splitPt (ptab.length + 1) stab ptab = .ok [(stab, ptab)] := by
  have _ := hs
  obtain ⟨syms, t, L, _⟩ := Split.mpt_linF ss brk ptab h
  exact L.split_id hn lo hc stab _

/-- more fuel never changes the result -/
theorem split_fuel_mono {α} (fuel : Nat) (stab : List (List α)) (ptab : PairTable) (parts)
    (h : splitPt fuel stab ptab = .ok parts) : splitPt (fuel + 1) stab ptab = .ok parts :=
  Split.split_fuel_mono fuel stab ptab parts h

/-- the parts of a split are well-formed pair tables themselves (their dot-bracket rendering parses back to them) -/
theorem split_parts_wellformed {α} (ss : List Char) (brk : Char) (ptab : PairTable) (stab : List (List α)) (parts)
    (h : makePairTable ss brk = .ok ptab) (hs : stab.length = ptab.length) (hb : toSym brk = none)
    (hne : ∀ s ∈ splitOn brk ss, s ≠ [])
    (hp : splitPt (ptab.length + 1) stab ptab = .ok parts) :
    ∀ part ∈ parts, makePairTable (ptToDb part.2 brk) brk = .ok part.2 := by
  obtain ⟨syms, t, L, _⟩ := Split.mpt_linF ss brk ptab h
  have hshape := mpt_shape ss brk ptab h
  have hlen : 1 ≤ ptab.length := by
    have e := congrArg List.length hshape
    simp only [List.length_map] at e
    have : (splitOn brk ss).length ≠ 0 := fun e0 => splitOn_ne_nil brk ss (List.length_eq_zero_iff.mp e0)
    omega
  obtain ⟨parts', idxs, f, l, q, _, _⟩ := Split.split_gen ptab.length stab ptab syms L.lm rfl hlen hs
  rw [hp] at f
  have := Except.ok.inj f
  subst this
  intro part hpart
  obtain ⟨k, hk⟩ := List.mem_iff_getElem?.mp hpart
  have hkl : k < idxs.length := by rw [l]; exact (List.getElem?_eq_some_iff.mp hk).1
  obtain ⟨p, hidx⟩ := q k part _ hk (List.getElem?_eq_getElem hkl)
  have hlm := L.lm.restrict p.pt
  apply hlm.roundtrip brk hb
  · intro e
    have := p.pt.len
    rw [e] at this
    exact hidx (List.length_eq_zero_iff.mp this.symm)
  · intro r hr e
    subst e
    have hmem : ([] : List (Option Locus)) ∈ part.2 := List.mem_of_mem_head? hr
    have h1 : 0 ∈ part.2.map List.length := List.mem_map.mpr ⟨[], hmem, rfl⟩
    rw [p.pt.rows'] at h1
    have h2 := Split.mem_sel _ _ _ h1
    rw [hshape] at h2
    obtain ⟨s, hs1, hs2⟩ := List.mem_map.mp h2
    exact hne s hs1 (List.length_eq_zero_iff.mp hs2)

/-- non-vacuity: two components, one nested inside a loop of the other -/
example : (makePairTable "(.+.+)".toList '+').toOption.bind
      (fun pt => (splitPt 4 [["a", "b"], ["c"], ["d"]] pt).toOption) =
    some [([["c"]], ([[none]] : PairTable)), ([["a", "b"], ["d"]], [[some (1, 0), none], [some (0, 0)]])] := by rfl

end Dsd.C09
