import DsdVerif.Gen.Grammars
import DsdVerif.Lemmas.PPSsw
import DsdVerif.Lemmas.PPSswMore
import DsdVerif.Props.C19Ssw

namespace Dsd.C19
open Dsd.PP Dsd.Gen

/-! The remaining statement kinds of the seesaw grammar. -/

/-- seesaw identifiers: a letter followed by letters / digits / `_` / `-` -/
def SIdent (s : List Char) : Prop := ∃ c cs, s = c :: cs ∧ c ∈ pp_alphas ∧ ∀ x ∈ cs, x ∈ pp_alphanums ++ ['_', '-']

open Dsd.PP.Ssw in
theorem notab_ident {s : List Char} (h : SIdent s) : '\t' ∉ s := by
  obtain ⟨c, cs, rfl, hc, hcs⟩ := h
  intro hm
  rcases List.mem_cons.mp hm with e | hm
  · exact (alphas_facts c hc).2.2.1 e.symm
  · exact (body_facts _ (hcs _ hm)).1 rfl

/-- split a non-empty list of digit strings -/
theorem split_digits {xs : List (List Char)} (h : xs ≠ [] ∧ ∀ x ∈ xs, Digits x) :
    ∃ x0 xs', xs = x0 :: xs' ∧ Digits x0 ∧ ∀ y ∈ xs', Digits y := by
  obtain ⟨hne, hall⟩ := h
  cases xs with
  | nil => exact absurd rfl hne
  | cons x0 xs' => exact ⟨x0, xs', rfl, hall x0 List.mem_cons_self, fun y hy => hall y (List.mem_cons_of_mem _ hy)⟩

/-- INPUT / OUTPUT with an identifier instead of a number -/
theorem input_ident_rt (n a b : List Char) (hn : SIdent n) (ha : Digits a) (hb : Digits b) (k1 k2 k3 : Nat) :
    parseDoc ssw_env ssw_grammar
      (String.ofList ("INPUT(".toList ++ n ++ [')'] ++ blanks k1 ++ ['='] ++ blanks k2 ++ renderWire a b k3 ++ ['\n'])) =
    some [.grp [.tok "INPUT", .grp [tokOf n], wireTree a b]] := by
  have hnt := notab_ident hn; have hat := notab_digits ha; have hbt := notab_digits hb
  refine parse_of_ev _ _ _ _ _ (Ssw.doc_ok 'I' _ (by decide) (by decide) (by decide) _ _
    (Ssw.inp_ev_gen n (Ssw.ev_name_ident n hn) k1 _ _ (Ssw.ev_wire k2 k3 a b ha hb ['\n']))) ?_ ?_ ?_ rfl
  · simp [blanks, renderWire]
  · simp [hnt, hat, hbt]
  · omega

theorem output_wire_rt (n a b : List Char) (hn : Digits n) (ha : Digits a) (hb : Digits b) (k1 k2 k3 : Nat) :
    parseDoc ssw_env ssw_grammar
      (String.ofList ("OUTPUT(".toList ++ n ++ [')'] ++ blanks k1 ++ ['='] ++ blanks k2 ++ renderWire a b k3 ++ ['\n'])) =
    some [.grp [.tok "OUTPUT", .grp [tokOf n], wireTree a b]] := by
  have hnt := notab_digits hn; have hat := notab_digits ha; have hbt := notab_digits hb
  refine parse_of_ev _ _ _ _ _ (Ssw.doc_ok 'O' _ (by decide) (by decide) (by decide) _ _
    (Ssw.out_ev_gen n (Ssw.ev_name_number n hn) k1 _ _ (Ssw.ev_outval_wire k2 k3 a b ha hb ['\n']))) ?_ ?_ ?_ rfl
  · simp [blanks, renderWire]
  · simp [hnt, hat, hbt]
  · omega

/-- a wire whose second component is the fluorophore marker `f` -/
theorem input_wire_f_rt (n a : List Char) (hn : Digits n) (ha : Digits a) :
    parseDoc ssw_env ssw_grammar
      (String.ofList ("INPUT(".toList ++ n ++ ") = w[".toList ++ a ++ ", f]\n".toList)) =
    some [.grp [.tok "INPUT", .grp [tokOf n], .grp [.tok "w", .grp [tokOf a, .tok "f"]]]] := by
  have hnt := notab_digits hn; have hat := notab_digits ha
  refine parse_of_ev _ _ _ _ _ (Ssw.doc_ok 'I' _ (by decide) (by decide) (by decide) _ _
    (Ssw.inp_ev_gen n (Ssw.ev_name_number n hn) 1 _ _ (Ssw.ev_wire_f 1 1 a ha ['\n']))) ?_ ?_ ?_ rfl
  · simp
  · simp [hnt, hat]
  · omega

/-- gate concentrations, both argument orders (`g[w[a,b], n]` and `g[n, w[a,b]]`) -/
theorem gateO_conc_rt (a b n v : List Char) (ha : Digits a) (hb : Digits b) (hn : Digits n) (hv : Digits v) :
    parseDoc ssw_env ssw_grammar
      (String.ofList ("conc[g[".toList ++ renderWire a b 1 ++ ", ".toList ++ n ++ "], ".toList ++ v ++ "*c]\n".toList)) =
    some [.grp [.tok "conc", .grp [.tok "g", .grp [wireTree a b, tokOf n]], tokOf v]] := by
  have hat := notab_digits ha; have hbt := notab_digits hb; have hnt := notab_digits hn; have hvt := notab_digits hv
  refine parse_of_ev _ _ _ _ _ (Ssw.doc_ok 'c' _ (by decide) (by decide) (by decide) _ _
    (Ssw.gateO_conc_ev a b n v ha hb hn hv 1 1 1)) ?_ ?_ ?_ rfl
  · simp [blanks, renderWire]
  · simp [hat, hbt, hnt, hvt]
  · omega

theorem gateI_conc_rt (a b n v : List Char) (ha : Digits a) (hb : Digits b) (hn : Digits n) (hv : Digits v) :
    parseDoc ssw_env ssw_grammar
      (String.ofList ("conc[g[".toList ++ n ++ ", ".toList ++ renderWire a b 1 ++ "], ".toList ++ v ++ "*c]\n".toList)) =
    some [.grp [.tok "conc", .grp [.tok "g", .grp [tokOf n, wireTree a b]], tokOf v]] := by
  have hat := notab_digits ha; have hbt := notab_digits hb; have hnt := notab_digits hn; have hvt := notab_digits hv
  refine parse_of_ev _ _ _ _ _ (Ssw.doc_ok 'c' _ (by decide) (by decide) (by decide) _ _
    (Ssw.gateI_conc_ev a b n v ha hb hn hv 1 1 1)) ?_ ?_ ?_ rfl
  · simp [blanks, renderWire]
  · simp [hat, hbt, hnt, hvt]
  · omega

/-- threshold concentrations -/
theorem thO_conc_rt (a b n v : List Char) (ha : Digits a) (hb : Digits b) (hn : Digits n) (hv : Digits v) :
    parseDoc ssw_env ssw_grammar
      (String.ofList ("conc[th[".toList ++ renderWire a b 1 ++ ", ".toList ++ n ++ "], ".toList ++ v ++ "*c]\n".toList)) =
    some [.grp [.tok "conc", .grp [.tok "th", .grp [wireTree a b, tokOf n]], tokOf v]] := by
  have hat := notab_digits ha; have hbt := notab_digits hb; have hnt := notab_digits hn; have hvt := notab_digits hv
  refine parse_of_ev _ _ _ _ _ (Ssw.doc_ok 'c' _ (by decide) (by decide) (by decide) _ _
    (Ssw.thO_conc_ev a b n v ha hb hn hv 1 1 1)) ?_ ?_ ?_ rfl
  · simp [blanks, renderWire]
  · simp [hat, hbt, hnt, hvt]
  · omega

/-- decimal and scientific concentrations -/
theorem wireconc_decimal_rt (a b v w : List Char) (ha : Digits a) (hb : Digits b) (hv : Digits v) (hw : Digits w) :
    parseDoc ssw_env ssw_grammar
      (String.ofList ("conc[".toList ++ renderWire a b 1 ++ ", ".toList ++ v ++ ['.'] ++ w ++ "*c]\n".toList)) =
    some [.grp [.tok "conc", wireTree a b, tokOf (v ++ ['.'] ++ w)]] := by
  have hat := notab_digits ha; have hbt := notab_digits hb; have hvt := notab_digits hv; have hwt := notab_digits hw
  refine parse_of_ev _ _ _ _ _ (Ssw.doc_ok 'c' _ (by decide) (by decide) (by decide) _ _
    (Ssw.wireconc_dec_ev a b v w ha hb hv hw 1 1)) ?_ ?_ ?_ ?_
  · simp [blanks, renderWire]
  · simp [hat, hbt, hvt, hwt]
  · omega
  · simp [tokOf, wireTree, Ssw.wireT]

/-- the two-list macros -/
theorem seesawOR_rt (a b : List Char) (xs ys : List (List Char)) (ha : Digits a) (hb : Digits b)
    (hx : xs ≠ [] ∧ ∀ x ∈ xs, Digits x) (hy : ys ≠ [] ∧ ∀ y ∈ ys, Digits y) :
    parseDoc ssw_env ssw_grammar
      (String.ofList ("seesawOR[".toList ++ a ++ ", ".toList ++ b ++ ", ".toList ++ braces xs ++ ", ".toList ++ braces ys ++ [']', '\n'])) =
    some [.grp [.tok "seesawOR", .grp [tokOf a, tokOf b, .grp (xs.map tokOf), .grp (ys.map tokOf)]]] := by
  obtain ⟨x0, xs, rfl, hx0, hxs⟩ := split_digits hx
  obtain ⟨y0, ys, rfl, hy0, hys⟩ := split_digits hy
  have hat := notab_digits ha; have hbt := notab_digits hb
  have hx0t := notab_digits hx0; have hy0t := notab_digits hy0
  have hxt := notab_tailR xs hxs; have hyt := notab_tailR ys hys
  have hl1 := Ssw.length_le_tailR xs; have hl2 := Ssw.length_le_tailR ys
  refine parse_of_ev _ _ _ _ _ (Ssw.doc_ok 's' _ (by decide) (by decide) (by decide) _ _
    (Ssw.seesawOR_ev a b x0 y0 xs ys ha hb hx0 hy0 hxs hys 1 1 1)) ?_ ?_ ?_ rfl
  · simp [braces, renderList_cons]
  · simp [hat, hbt, hx0t, hy0t, hxt, hyt]
  · simp only [List.length_cons, List.length_append]; omega

theorem seesawAND_rt (a b : List Char) (xs ys : List (List Char)) (ha : Digits a) (hb : Digits b)
    (hx : xs ≠ [] ∧ ∀ x ∈ xs, Digits x) (hy : ys ≠ [] ∧ ∀ y ∈ ys, Digits y) :
    parseDoc ssw_env ssw_grammar
      (String.ofList ("seesawAND[".toList ++ a ++ ", ".toList ++ b ++ ", ".toList ++ braces xs ++ ", ".toList ++ braces ys ++ [']', '\n'])) =
    some [.grp [.tok "seesawAND", .grp [tokOf a, tokOf b, .grp (xs.map tokOf), .grp (ys.map tokOf)]]] := by
  obtain ⟨x0, xs, rfl, hx0, hxs⟩ := split_digits hx
  obtain ⟨y0, ys, rfl, hy0, hys⟩ := split_digits hy
  have hat := notab_digits ha; have hbt := notab_digits hb
  have hx0t := notab_digits hx0; have hy0t := notab_digits hy0
  have hxt := notab_tailR xs hxs; have hyt := notab_tailR ys hys
  have hl1 := Ssw.length_le_tailR xs; have hl2 := Ssw.length_le_tailR ys
  refine parse_of_ev _ _ _ _ _ (Ssw.doc_ok 's' _ (by decide) (by decide) (by decide) _ _
    (Ssw.seesawAND_ev a b x0 y0 xs ys ha hb hx0 hy0 hxs hys 1 1 1)) ?_ ?_ ?_ rfl
  · simp [braces, renderList_cons]
  · simp [hat, hbt, hx0t, hy0t, hxt, hyt]
  · simp only [List.length_cons, List.length_append]; omega

/-- a seesaw gate with a missing list is rejected -/
theorem seesaw_missing_list_rejected (n : List Char) (ins : List (List Char)) (hn : Digits n)
    (hi : ins ≠ [] ∧ ∀ x ∈ ins, Digits x) :
    parseDoc ssw_env ssw_grammar
      (String.ofList ("seesaw[".toList ++ n ++ ", ".toList ++ braces ins ++ [']', '\n'])) = none := by
  obtain ⟨i0, is, rfl, hi0, his⟩ := split_digits hi
  have hnt := notab_digits hn; have hi0t := notab_digits hi0; have hist := notab_tailR is his
  have hl := Ssw.length_le_tailR is
  refine parse_of_ev _ _ _ _ _ (Ssw.doc_fail 's' _ (by decide) (by decide) (by decide) _
    (Ssw.seesaw_missing_fail n i0 is hn hi0 his 1 ['\n'])) ?_ ?_ ?_ rfl
  · simp [braces, renderList_cons]
  · simp [hnt, hi0t, hist]
  · simp only [List.length_cons, List.length_append]; omega

/-- a trailing comment and a missing final newline do not change the parse -/
theorem reporter_comment_rt (a b comment : List Char) (ha : Digits a) (hb : Digits b) (hc : '\n' ∉ comment) (ht : '\t' ∉ comment) (e : Nat) :
    parseDoc ssw_env ssw_grammar
      (String.ofList ("reporter[".toList ++ a ++ ", ".toList ++ b ++ [']'] ++ blanks e ++ ['#'] ++ comment)) =
    some [.grp [.tok "reporter", .grp [tokOf a, tokOf b]]] := by
  have hat := notab_digits ha; have hbt := notab_digits hb
  refine parse_of_ev _ _ _ _ _ (Ssw.doc_one 'r' _ (by decide) (by decide) (by decide) _ _
    (Ssw.stmt_ok _ _ _ _ _ _ (Ssw.reporter_ev_rest a b ha hb 1 (Ssw.bl e ++ '#' :: comment))
      (Ssw.ev_lineEnds_comment e comment hc))) ?_ ?_ ?_ rfl
  · simp [blanks]
  · simp [hat, hbt, ht]
  · omega

/-- **documents parse as the concatenation of their statements** (two reporter statements) -/
theorem two_statements_rt (a b c d : List Char) (ha : Digits a) (hb : Digits b) (hc : Digits c) (hd : Digits d) (k : Nat) :
    parseDoc ssw_env ssw_grammar
      (String.ofList ("reporter[".toList ++ a ++ ", ".toList ++ b ++ "]\n".toList ++ List.replicate k '\n' ++
                      "reporter[".toList ++ c ++ ", ".toList ++ d ++ "]\n".toList)) =
    some [.grp [.tok "reporter", .grp [tokOf a, tokOf b]], .grp [.tok "reporter", .grp [tokOf c, tokOf d]]] := by
  have hat := notab_digits ha; have hbt := notab_digits hb; have hct := notab_digits hc; have hdt := notab_digits hd
  have h1 := Ssw.stmt_ok (env := ssw_env) _ _ _ _ _ _
    (Ssw.reporter_ev_rest a b ha hb 1 ('\n' :: (List.replicate k '\n' ++
      'r' :: 'e' :: 'p' :: 'o' :: 'r' :: 't' :: 'e' :: 'r' :: '[' :: (c ++ ',' :: (Ssw.bl 1 ++ (d ++ [']', '\n']))))))
    (Ssw.ev_lineEnds_nls k 'r' _ (by decide) (by decide) (by decide))
  have h2 := Ssw.stmt_ok (env := ssw_env) _ _ _ _ _ _ (Ssw.reporter_ev_rest c d hc hd 1 ['\n']) ev_lineEnds_final
  refine parse_of_ev _ _ _ _ _ (Ssw.doc_two 'r' _ (by decide) (by decide) (by decide) _ (by simp) _ _ _ _ h1 h2)
    ?_ ?_ ?_ rfl
  · simp
  · simp [hat, hbt, hct, hdt]
  · simp only [List.length_cons, List.length_append, List.length_replicate]; omega

end Dsd.C19
