/-
C20, task 4 — the views of a legacy `DSD_Complex` instance against the views of the current `ComplexS` object with the
same representation (`CplxSpec.answer`, i.e. `C03.qSpec`; the C03 / C08Obj theorems are stated on these).

Each theorem names the caches it needs empty: that is the state after `rotate_once()` (which resets `_pair_table`,
`_loop_index`, `_lol_sequence`, `_strand_lengths`, `_exterior_domains`, `_enclosed_domains`) and, except for
`_strand_lengths` / `_lol_sequence` (filled by `self.size`, and describing the representation), after `__init__`.
`rotate_once()` used NOT to reset `_enclosed_domains` and `_strand_lengths`: two findings of this claim, repaired in
/repo c1d6792 - the story and the repaired behaviour are at the end (`Findings.repaired_enclosed`,
`Findings.repaired_strand_length`).
-/
import DsdVerif.Lemmas.LegacyViews
import DsdVerif.Lemmas.LegacyConstruct
import DsdVerif.Props.C03Views
import DsdVerif.Props.C07Loci

namespace Dsd.C20V
open Dsd Dsd.Lg Dsd.LgL

/-- the current object with the representation of the legacy instance -/
def cur (o : LObj) : CplxSpec := { seq := o.seq, sst := o.sst, turns := 0, canon := ([], []), name := o.name }

def curObj (o : LObj) : CplxObj := { seq := o.seq, sst := o.sst, turns := 0, canon := ([], []), name := o.name }

/-- the answers of the current (cache-free) object are the closed forms `C03.qSpec` -/
theorem answer_eq (o : LObj) (v : View) : (cur o).answer v = C03.qSpec (curObj o) v :=
  (C03.query_coh (curObj o).fresh v (C03.coh_fresh (curObj o))).2.1

/-! ### answers in the common vocabulary -/

def ansStr : Except LErr String → Ans | .ok s => .str s | .error e => .err (errOf e)
def ansNat : Except LErr Nat → Ans | .ok n => .nat n | .error e => .err (errOf e)
def ansOLoc : Except LErr (Option Locus) → Ans | .ok x => .oloc x | .error e => .err (errOf e)
def ansLocs : Except LErr (List Locus) → Ans | .ok l => .locs l | .error e => .err (errOf e)
def ansBool : Except LErr Bool → Ans | .ok b => .bool b | .error e => .err (errOf e)
def ansPtab : Except LErr PairTable → Ans | .ok t => .ptab t | .error e => .err (errOf e)

/-! ### the views -/

/-- **`kernel_string`** -/
theorem legacy_kernel_string_eq (o : LObj) (h : o.seq.length = o.sst.length) :
    ansStr o.kernelString = (cur o).answer .kernel := by
  rw [answer_eq, kernelString_eq o h]; rfl

/-- **`pair_table`** (never cached by the legacy class) -/
theorem legacy_pair_table_eq (o : LObj) : ansPtab o.pairTableView = (cur o).answer .pairTable := by
  rw [answer_eq, pairTableView_eq]
  simp only [C03.qSpec, curObj]
  cases h : makePairTable o.sst with
  | ok pt => rfl
  | error e => rw [makePairTable_err _ _ h]; rfl

/-- **`lol_sequence`** and **`size`** -/
theorem legacy_lol_sequence_eq (o : LObj) : Ans.stab o.lolSequenceView = (cur o).answer .strandTable := by
  rw [answer_eq]; rfl

theorem legacy_size_eq (o : LObj) (h1 : o.strandLengths = none) (h2 : o.lolSequence = none) :
    Ans.nat o.size.2 = (cur o).answer .size := by
  rw [answer_eq]
  unfold LObj.size LObj.fillStrandLengths
  simp [h1, h2, truthy, C03.qSpec, curObj]

/-- **`strand_length(pos)`** -/
theorem legacy_strand_length_eq (o : LObj) (h1 : o.strandLengths = none) (h2 : o.lolSequence = none) (k : Nat) :
    ansNat (o.strandLength k).2 = (cur o).answer (.strandLength k) := by
  rw [answer_eq]
  unfold LObj.strandLength LObj.fillStrandLengths
  simp only [h1, h2, truthy, Bool.false_eq_true, if_false, Option.getD_some, C03.qSpec, curObj, List.getElem?_map]
  cases (makeStrandTableList "+" o.seq)[k]? <;> rfl

/-- **`get_domain(loc)`** -/
theorem legacy_get_domain_eq (o : LObj) (h : o.lolSequence = none) (l : Locus) :
    ansStr (o.getDomain l).2 = (cur o).answer (.getDomain l) := by
  rw [answer_eq]
  unfold LObj.getDomain
  simp only [h, truthy, Bool.false_eq_true, if_false, Option.getD_some, C03.qSpec, curObj]
  cases ((makeStrandTableList "+" o.seq)[l.1]?).bind (fun s => s[l.2]?) <;> rfl

/-- … also when `_lol_sequence` is filled with the strand table of the representation (the state after `__init__`) -/
theorem legacy_get_domain_eq_filled (o : LObj) (h : o.lolSequence = some (makeStrandTableList "+" o.seq)) (l : Locus) :
    ansStr (o.getDomain l).2 = (cur o).answer (.getDomain l) := by
  rw [answer_eq]
  unfold LObj.getDomain
  have e : (if truthy o.lolSequence = true then o
      else { o with lolSequence := some (makeStrandTableList "+" o.seq) }).lolSequence =
      some (makeStrandTableList "+" o.seq) := by
    split
    · exact h
    · rfl
  simp only [e, Option.getD_some, C03.qSpec, curObj]
  cases ((makeStrandTableList "+" o.seq)[l.1]?).bind (fun s => s[l.2]?) <;> rfl

/-- **`get_paired_loc(loc)`** for a locus without negative entries (a negative entry is an IndexError on both sides) -/
theorem legacy_get_paired_loc_eq (o : LObj) (h : o.pairTable = none) (l : Locus) :
    ansOLoc (o.getPairedLoc ((l.1 : Int), (l.2 : Int))).2 = (cur o).answer (.getPairedLoc l) := by
  rw [answer_eq]
  unfold LObj.getPairedLoc
  have hneg : ¬ (((l.1 : Int) < 0) ∨ ((l.2 : Int) < 0)) := by omega
  simp only [hneg, if_false, fillPairTable_none o h, C03.qSpec, curObj, Int.toNat_natCast]
  cases hm : makePairTable o.sst with
  | ok pt =>
    simp only
    cases (pt[l.1]?).bind (fun s => s[l.2]?) <;> rfl
  | error e => rw [makePairTable_err _ _ hm]; rfl

/-- **`get_loop_index(loc)`** -/
theorem legacy_get_loop_index_eq (o : LObj) (h1 : o.pairTable = none) (h2 : o.loopIndex = none) (l : Locus) :
    ansNat (o.getLoopIndex l).2 = (cur o).answer (.getLoopIndex l) := by
  rw [answer_eq]
  unfold LObj.getLoopIndex
  simp only [fillPairTable_none o h1, C03.qSpec, curObj, CplxObj.liSpec]
  cases hm : makePairTable o.sst with
  | error e => rw [makePairTable_err _ _ hm]; rfl
  | ok pt =>
    simp only [h2, truthy, Bool.false_eq_true, if_false, runLoopIndex_eq]
    cases hl : CplxObj.liOf pt with
    | error e => rw [liOf_err _ _ hl]; rfl
    | ok lx =>
      obtain ⟨li, ext⟩ := lx
      simp only
      cases (li[l.1]?).bind (fun s => s[l.2]?) <;> rfl

/-- **`is_connected`** for a structure that has a pair table -/
theorem legacy_is_connected_eq (o : LObj) (h1 : o.pairTable = none) (h2 : o.loopIndex = none) (pt : PairTable)
    (hpt : makePairTable o.sst = .ok pt) : ansBool o.isConnected.2 = (cur o).answer .isConnected := by
  rw [answer_eq]
  unfold LObj.isConnected
  simp only [fillPairTable_none o h1, hpt, h2, truthy, Bool.false_eq_true, if_false, runLoopIndex_eq, C03.qSpec, curObj,
    CplxObj.liSpec]
  cases hl : CplxObj.liOf pt with
  | error e => rw [liOf_err _ _ hl]; rfl
  | ok lx => obtain ⟨li, ext⟩ := lx; rfl

/-- **`exterior_domains`** -/
theorem legacy_exterior_eq (o : LObj) (h0 : o.exteriorDomains = none) (h1 : o.pairTable = none) (h2 : o.loopIndex = none) :
    ansLocs o.exteriorDomainsView.2 = (cur o).answer .exterior := by
  rw [answer_eq]
  unfold LObj.exteriorDomainsView
  simp only [h0, truthy, Bool.false_eq_true, if_false, fillPairTable_none o h1, C03.qSpec, curObj, CplxObj.edSpec]
  cases hm : makePairTable o.sst with
  | error e => rw [makePairTable_err _ _ hm]; rfl
  | ok pt =>
    simp only [h2, Bool.not_false, Bool.true_or, if_true, runLoopIndex_eq]
    cases hl : CplxObj.liOf pt with
    | error e => rw [liOf_err _ _ hl]; rfl
    | ok lx => obtain ⟨li, ext⟩ := lx; rfl

/-- **`enclosed_domains`** -/
theorem legacy_enclosed_eq (o : LObj) (he : o.enclosedDomains = none) (h0 : o.exteriorDomains = none)
    (h1 : o.pairTable = none) (h2 : o.loopIndex = none) :
    ansLocs o.enclosedDomainsView.2 = (cur o).answer .enclosed := by
  rw [answer_eq]
  unfold LObj.enclosedDomainsView LObj.exteriorDomainsView
  simp only [he, h0, truthy, Bool.false_eq_true, if_false, fillPairTable_none o h1, C03.qSpec, curObj, CplxObj.edSpec]
  cases hm : makePairTable o.sst with
  | error e => rw [makePairTable_err _ _ hm]; rfl
  | ok pt =>
    simp only [h2, Bool.not_false, Bool.true_or, if_true, runLoopIndex_eq]
    cases hl : CplxObj.liOf pt with
    | error e => rw [liOf_err _ _ hl]; rfl
    | ok lx => obtain ⟨li, ext⟩ := lx; rfl

/-- **`rotate_pairtable_loc(loc, n)`**: the legacy method ADDS `n` where the current one subtracts it — the legacy
    `rotate_pairtable_loc(loc, n)` is the current `rotate_pairtable_loc(loc, −n)` (`C07.rotLoc size (−n)`), for every
    locus and every integer `n` on a complex with at least one strand. -/
theorem legacy_rotate_pairtable_loc_eq (o : LObj) (h1 : o.strandLengths = none) (h2 : o.lolSequence = none)
    (l : Locus) (n : Int) (hpos : 0 < (makeStrandTableList "+" o.seq).length) :
    (o.rotatePairtableLoc ((l.1 : Int), l.2) (some n)).2 =
      .ok (C07.rotLoc (makeStrandTableList "+" o.seq).length (-n) l) := by
  unfold LObj.rotatePairtableLoc LObj.size LObj.fillStrandLengths
  simp only [h1, h2, truthy, Bool.false_eq_true, if_false, Option.getD_some, List.length_map]
  unfold lwrap C07.rotLoc Dsd.wrap
  have hne : (makeStrandTableList "+" o.seq).length ≠ 0 := by omega
  simp only [hne, if_false, Int.sub_neg]

/-- with the default `n = None` (`n = self.size`) the locus is returned unchanged -/
theorem legacy_rotate_pairtable_loc_default (o : LObj) (h1 : o.strandLengths = none) (h2 : o.lolSequence = none)
    (l : Locus) (hl : l.1 < (makeStrandTableList "+" o.seq).length) :
    (o.rotatePairtableLoc ((l.1 : Int), l.2) none).2 = .ok l := by
  unfold LObj.rotatePairtableLoc LObj.size LObj.fillStrandLengths
  simp only [h1, h2, truthy, Bool.false_eq_true, if_false, Option.getD_some, List.length_map]
  unfold lwrap
  have hne : (makeStrandTableList "+" o.seq).length ≠ 0 := by omega
  simp only [hne, if_false]
  congr 1
  have e1 : ((l.1 : Int) + ((makeStrandTableList "+" o.seq).length : Int)) % ((makeStrandTableList "+" o.seq).length : Int) = (l.1 : Int) := by
    rw [Int.add_emod_right, Int.emod_eq_of_lt (by omega) (by omega)]
  rw [e1, Int.add_emod_right, Int.emod_eq_of_lt (by omega) (by omega)]
  simp

/-! ### the instance `__init__` registers, and the instance after `rotate_once()` -/

/-- after `__init__` (`registered …`) the caches of the structure views are empty, and `_lol_sequence` /
    `_strand_lengths` (filled by the last `self.size` of `canonical_form`, after the last turn) describe the
    representation: the theorems above apply (`legacy_get_domain_eq_filled` for `get_domain`), and `size` /
    `strand_length` are right as well -/
theorem legacy_views_registered (fresh : Nat) (nm : String) (seq : List String) (sst : List Char) (mc : Bool) (c : CKey)
    (rot : Nat) (hne : makeStrandTableList "+" seq ≠ []) (k : Nat) :
    let o := registered fresh nm seq sst mc c rot
    o.pairTable = none ∧ o.loopIndex = none ∧ o.lolSequence = some (makeStrandTableList "+" seq) ∧
    o.exteriorDomains = none ∧ o.enclosedDomains = none ∧
    Ans.nat o.size.2 = (cur o).answer .size ∧ ansNat (o.strandLength k).2 = (cur o).answer (.strandLength k) := by
  intro o
  refine ⟨rfl, rfl, rfl, rfl, rfl, ?_, ?_⟩
  · rw [answer_eq]
    have ht : truthy o.strandLengths = true := by
      show truthy (some ((makeStrandTableList "+" seq).map List.length)) = true
      cases h : makeStrandTableList "+" seq with
      | nil => exact absurd h hne
      | cons _ _ => rfl
    unfold LObj.size LObj.fillStrandLengths
    rw [if_pos ht]
    show Ans.nat ((makeStrandTableList "+" seq).map List.length).length = _
    simp [C03.qSpec, curObj, o, registered]
  · rw [answer_eq]
    have ht : truthy o.strandLengths = true := by
      show truthy (some ((makeStrandTableList "+" seq).map List.length)) = true
      cases h : makeStrandTableList "+" seq with
      | nil => exact absurd h hne
      | cons _ _ => rfl
    unfold LObj.strandLength LObj.fillStrandLengths
    rw [if_pos ht]
    show ansNat (match ((makeStrandTableList "+" seq).map List.length)[k]? with | some n => .ok n | none => _) = _
    simp only [C03.qSpec, curObj, o, registered, List.getElem?_map]
    cases (makeStrandTableList "+" seq)[k]? <;> rfl

/-- after a successful `rotate_once()` ALL the caches the views above depend on are empty again (since the repair
    c1d6792 `_strand_lengths` and `_enclosed_domains` too) — so `get_paired_loc`, `get_loop_index`, `get_domain`,
    `is_connected`, `exterior_domains`, `enclosed_domains`, `strand_length`, `kernel_string` of the turned instance are
    the views of the current object in the turned representation.  No hypothesis beyond the equal lengths is needed
    (an empty strand table gives an IndexError on both sides). -/
theorem legacy_views_after_rotate_once (o : LObj) (h : o.seq.length = o.sst.length) (nx : List String × List Char)
    (hrot : rotateOnce o.seq o.sst = .ok nx) :
    ∃ o', o.rotateOnce = (o', none) ∧ (o'.seq, o'.sst) = nx ∧
      o'.pairTable = none ∧ o'.loopIndex = none ∧ o'.lolSequence = none ∧ o'.exteriorDomains = none ∧
      o'.strandLengths = none ∧ o'.enclosedDomains = none ∧
      (∀ l, ansOLoc (o'.getPairedLoc ((l.1 : Int), (l.2 : Int))).2 = (cur o').answer (.getPairedLoc l)) ∧
      (∀ l, ansNat (o'.getLoopIndex l).2 = (cur o').answer (.getLoopIndex l)) ∧
      (∀ l, ansStr (o'.getDomain l).2 = (cur o').answer (.getDomain l)) ∧
      ansLocs o'.exteriorDomainsView.2 = (cur o').answer .exterior ∧
      ansLocs o'.enclosedDomainsView.2 = (cur o').answer .enclosed ∧
      (∀ k, ansNat (o'.strandLength k).2 = (cur o').answer (.strandLength k)) :=
  ⟨rotated o nx, obj_rotateOnce o nx hrot h, rfl, rfl, rfl, rfl, rfl, rfl, rfl,
    fun l => legacy_get_paired_loc_eq _ rfl l, fun l => legacy_get_loop_index_eq _ rfl rfl l,
    fun l => legacy_get_domain_eq _ rfl l, legacy_exterior_eq _ rfl rfl rfl, legacy_enclosed_eq _ rfl rfl rfl rfl,
    fun k => legacy_strand_length_eq _ rfl rfl k⟩

/-! ### non-vacuity -/

namespace Ex

/-- `z = DSD_Complex(a x b + b* a*, "(.(+))")` as `__init__` leaves it -/
def z : LObj := registered 0 "z" ["a", "x", "b", "+", "b*", "a*"] ['(', '.', '(', '+', ')', ')'] true
  (["a", "x", "b", "+", "b*", "a*"], ['(', '.', '(', '+', ')', ')']) 0

/-- its views, by evaluation of the legacy model (observed on the real code as well) … -/
example :
    z.kernelString = .ok "a( x b( + ) )" ∧ z.isConnected.2 = .ok true ∧
    z.exteriorDomainsView.2 = .ok [] ∧ z.enclosedDomainsView.2 = .ok [(0, 1)] ∧
    (z.getPairedLoc (1, 0)).2 = .ok (some (0, 2)) ∧ (z.getLoopIndex (0, 1)).2 = .ok 1 ∧
    (z.getDomain (1, 1)).2 = .ok "a*" ∧ z.size.2 = 2 ∧ (z.strandLength 0).2 = .ok 3 ∧
    (z.rotatePairtableLoc (0, 1) (some 1)).2 = .ok (1, 1) := by decide +kernel

/-- … equal to the answers of the current object, by evaluation and by the theorems (whose hypotheses hold for `z`) -/
example :
    (cur z).answer .kernel = .str "a( x b( + ) )" ∧ (cur z).answer .isConnected = .bool true ∧
    (cur z).answer .exterior = .locs [] ∧ (cur z).answer .enclosed = .locs [(0, 1)] ∧
    (cur z).answer (.getPairedLoc (1, 0)) = .oloc (some (0, 2)) ∧ (cur z).answer (.getLoopIndex (0, 1)) = .nat 1 := by
  decide +kernel

example : ansStr z.kernelString = (cur z).answer .kernel ∧ ansBool z.isConnected.2 = (cur z).answer .isConnected ∧
    ansLocs z.enclosedDomainsView.2 = (cur z).answer .enclosed :=
  ⟨legacy_kernel_string_eq z rfl,
   legacy_is_connected_eq z rfl rfl [[some (1, 1), none, some (1, 0)], [some (0, 2), some (0, 0)]] (by decide),
   legacy_enclosed_eq z rfl rfl rfl rfl⟩

end Ex

/-! ### FINDINGS (views) -/

namespace Findings
open Ex

/-- V1 (`is_connected` on a structure without pair table).  Both classes accept `a( + b` at construction.  The current
    `is_connected` wraps the whole table construction in its `try` and answers `False`; the legacy one builds the pair
    table OUTSIDE the `try`, so `make_pair_table`'s SecondaryStructureError escapes. -/
theorem is_connected_unbalanced :
    let u := registered 0 "u" ["a", "+", "b"] ['(', '+', '.'] true (["a", "+", "b"], ['(', '+', '.']) 0
    u.isConnected.2 = .error .secondaryStructure ∧ (cur u).answer .isConnected = .bool false := by decide

/-- V2 (`rotate_pairtable_loc`: the sign).  `legacy_rotate_pairtable_loc_eq`: legacy `+ n`, current `− n`.  On three
    strands, `((0, 4), 1)` is `(1, 4)` for the legacy method and `(2, 4)` for the current one; the legacy
    `_rotations` is "inverted to be compatible with wrap" accordingly (`size − e` where the current `turns` is
    `wrap(−e)`; they coincide for asymmetric complexes). -/
theorem rotate_pairtable_loc_sign :
    let t := registered 0 "t" ["a", "+", "b", "+", "c"] ['.', '+', '.', '+', '.'] true
      (["a", "+", "b", "+", "c"], ['.', '+', '.', '+', '.']) 0
    (t.rotatePairtableLoc (0, 4) (some 1)).2 = .ok (1, 4) ∧ C07.rotLoc 3 1 (0, 4) = (2, 4) ∧
    C07.rotLoc 3 (-1) (0, 4) = (1, 4) := by decide

/-- V3 (`enclosed_domains` after `rotate_once()`) — a DEFECT FOUND by this claim, REPAIRED in /repo c1d6792.
    `rotate_once` used to reset `_exterior_domains` but not `_enclosed_domains`: asked first after a turn,
    `enclosed_domains` still answered with the loci of the OLD strand order (`(0, 1)`; the domain `x` is now at `(1, 1)`),
    until `exterior_domains` was evaluated (the theorem here was `stale_enclosed`).  The current `turns` setter resets
    every cache.  Since the repair `rotate_once` resets `_enclosed_domains` as well: on the same example the cache is
    empty after the turn and the legacy answer EQUALS the current API's. -/
theorem repaired_enclosed :
    let z1 := (z.enclosedDomainsView.1).rotateOnce.1
    z1.seq = ["b*", "a*", "+", "a", "x", "b"] ∧ z1.enclosedDomains = none ∧
    z1.enclosedDomainsView.2 = .ok [(1, 1)] ∧ (cur z1).answer .enclosed = .locs [(1, 1)] ∧
    ansLocs z1.enclosedDomainsView.2 = (cur z1).answer .enclosed ∧
    (z1.exteriorDomainsView.1).enclosedDomainsView.2 = .ok [(1, 1)] := by decide

/-- V4 (`strand_length` after `rotate_once()`) — a DEFECT FOUND by this claim, REPAIRED in /repo c1d6792.
    `_strand_lengths` was never reset: `strand_length(0)` kept reporting the length of the strand that WAS first (3; the
    first strand is now `b* a*`, of length 2), while `size` was unaffected, a turn does not change the number of strands
    (the theorem here was `stale_strand_length`).  Since the repair `rotate_once` resets `_strand_lengths` as well: on
    the same example the cache is empty after the turn and the legacy answers EQUAL the current API's. -/
theorem repaired_strand_length :
    let z1 := z.rotateOnce.1
    z1.strandLengths = none ∧
    (z1.strandLength 0).2 = .ok 2 ∧ (cur z1).answer (.strandLength 0) = .nat 2 ∧
    ansNat (z1.strandLength 0).2 = (cur z1).answer (.strandLength 0) ∧
    ansNat (z1.strandLength 1).2 = (cur z1).answer (.strandLength 1) ∧
    Ans.nat z1.size.2 = (cur z1).answer .size := by decide

end Findings

end Dsd.C20V
