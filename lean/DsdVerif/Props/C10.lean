/- C10 — order / equality algebra: the theorems are in Props/C11Sets.lean (namespace Dsd.C11). -/
import DsdVerif.Props.C11Sets
import DsdVerif.Props.C10Dunders
