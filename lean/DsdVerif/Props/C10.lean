/- C10 — theorems are being added. -/
import DsdVerif.Model.World
