import DsdVerif.Props.C19Forms
import DsdVerif.Lemmas.PPIndent

/-! C19 (seesaw grammar), the layout clause completed: INDENTED statements, and ONE theorem for every layout — the
seesaw counterpart of Props/C13Indent.lean, an instance of the line-by-line document theorem of
Lemmas/PPIndent.lean.

* `Ssw.StmtTextC`: `Ssw.StmtTextT` at every start column (after an indentation a statement no longer starts at
  column 0, which changes the tab expansion of its separators);
* `ssw_document_indent_rt`: documents given line by line — statement-free lines, statement lines
  `indentation ++ statement ++ comment`, LF / CR LF line ends, an unterminated last line;
* `ssw_every_layout`: the same with the statements taken from `SswStmt` — the eight statement kinds of
  Props/C19Forms.lean in every form of their arguments, with their templates `tmOf head toks` (an optional separator
  at EVERY token boundary) — rendered by the one function `Lines.renderDoc`. -/

namespace Dsd.PP.Ssw
open Dsd.PP Dsd.Gen Dsd.PP.Tabs

/-! ### the statement parser skips the indentation -/

theorem skipInv_stmt (env : Env) : Lines.SkipInv env ssw_stmt := by
  unfold ssw_stmt ssw_inp ssw_out ssw_seesaw ssw_wireconc ssw_outpconc ssw_thshconc ssw_macros ssw_reporter
    ssw_inputfanout ssw_seesawOR ssw_seesawAND
  apply Lines.SkipInv.seq
  apply Lines.SkipInv.group
  apply Lines.SkipInv.alt
  intro g hg
  simp only [List.mem_cons, List.not_mem_nil, or_false] at hg
  rcases hg with rfl | rfl | rfl | rfl | rfl | rfl | rfl
  · exact .seq _ (.lit _)
  · exact .seq _ (.lit _)
  · exact .seq _ (.lit _)
  · exact .seq _ (.lit _)
  · exact .seq _ (.lit _)
  · exact .seq _ (.lit _)
  · apply Lines.SkipInv.alt
    intro g hg
    simp only [List.mem_cons, List.not_mem_nil, or_false] at hg
    rcases hg with rfl | rfl | rfl | rfl <;> exact .seq _ (.lit _)

/-- the two toolkits say the same: `Ev … (some r) N` is `Ok … N … r` -/
theorem ok_of_ev {env : Env} {g : G} {p : Pos} {r : Pos × List Tree} {N : Nat} (h : Ev env sk g p (some r) N) :
    Ok env N {} g p r := h

theorem ev_of_ok {env : Env} {g : G} {p : Pos} {r : Pos × List Tree} {N : Nat} (h : Ok env N {} g p r) :
    Ev env sk g p (some r) N := h

/-! ### statement texts at any start column -/

/-- `s` — which may contain tabs — is the text of a statement AT ANY START COLUMN: at column `col` it expands to
    `s'`, whatever follows, and `s'` is a statement text.  (`StmtTextT` is the case `col = 0`.) -/
def StmtTextC (s : List Char) (t : Tree) : Prop :=
  ∀ col, ∃ s' col', (∀ rest, expandTabs (s ++ rest) col = s' ++ expandTabs rest col') ∧ StmtText s' t

theorem StmtTextC.toT {s : List Char} {t : Tree} (h : StmtTextC s t) : StmtTextT s t := by
  obtain ⟨s', col', h1, h2⟩ := h 0
  exact ⟨s', fun rest => ⟨col', h1 rest⟩, h2⟩

theorem StmtText.toC {s : List Char} {t : Tree} (h : StmtText s t) : StmtTextC s t :=
  fun col => ⟨s, colAfter s col, fun rest => expandTabs_tok s h.notab rest col, h⟩

theorem stmtTextC_of_template (tm : List Piece) (htok : ToksOK tm) (t : Tree)
    (hfam : ∀ ks, CountsOK tm ks → StmtText (render tm ks) t) (ws : List (List Char)) (hws : SepsOK tm ws) :
    StmtTextC (renderW tm ws) t := by
  intro col
  obtain ⟨ks, col', hk, hex⟩ := expand_template tm htok ws hws col
  exact ⟨render tm ks, col', hex, hfam ks hk⟩

/-- a statement text after any number of blanks is a statement line, in front of ANY statement-free rest of the
    line (a seesaw statement ends with `]`: blanks may follow) -/
theorem StmtText.lineB {s : List Char} {t : Tree} (h : StmtText s t) (n : Nat) (r : List Char)
    (hr : Lines.IsBlank r) : Lines.IsStmtLine ssw_env ssw_stmt (List.replicate n ' ' ++ s) t r := by
  obtain ⟨c, rs, rfl, hc⟩ := h.cons
  obtain ⟨ts, b, rfl, hb, hev⟩ := h.parses
  refine ⟨hr, fun R => ⟨c, rs ++ R, ?_, hc.2.2⟩, ?_⟩
  · rw [List.append_assoc, List.cons_append]; exact skipIgn_blanks_cons n c _ hc.1 hc.2.1
  · intro R NE p hR heol
    have := ok_of_ev (stmt_ok (env := ssw_env) _ _ _ ts b NE (hev (r ++ R)) (ev_of_ok heol))
    refine Lines.SkipInv.ok (skipInv_stmt ssw_env) (this.mono ?_) ?_
    · simp only [List.length_append, List.length_replicate, List.length_cons] at hb ⊢; omega
    · rw [List.append_assoc]; exact Lines.pre_blanks n _

theorem StmtText.line {s : List Char} {t : Tree} (h : StmtText s t) (n : Nat) (r : List Char)
    (hr : Lines.IsTrail r) : Lines.IsStmtLine ssw_env ssw_stmt (List.replicate n ' ' ++ s) t r :=
  h.lineB n r hr.blank

theorem StmtTextC.body {s : List Char} {t : Tree} (h : StmtTextC s t) : Lines.BodyT ssw_env ssw_stmt s t := by
  intro col
  obtain ⟨s', col', h1, h2⟩ := h col
  exact ⟨s', col', h1, fun n r hr => h2.line n r hr⟩

/-- … also when a blank/tab separator follows the statement -/
theorem StmtTextC.bodyW {s : List Char} {t : Tree} (h : StmtTextC s t) (w : List Char) (hw : IsSep w) :
    Lines.BodyT ssw_env ssw_stmt (s ++ w) t := by
  intro col
  obtain ⟨s0, col0, h1, h2⟩ := h col
  obtain ⟨k, col', _, hex⟩ := expandTabs_sep w hw col0
  refine ⟨s0 ++ List.replicate k ' ', col', fun rest => ?_, fun n r hr => ?_⟩
  · rw [List.append_assoc, h1, hex, List.append_assoc]
  · have := Lines.IsStmtLine.shift k hr.blank (h2.lineB n _ (hr.blank.blanks k))
    rw [List.append_assoc] at this
    exact this

theorem No_stmt_end : No ssw_env 100 {} ssw_stmt Lines.PEnd :=
  fun fuel hf => stmt_stop (env := ssw_env) fuel (by omega)

/-- **seesaw documents given line by line**, with indented statements, tabs, comments, LF / CR LF and an
    unterminated last line -/
theorem document_lines_parse (L : List (Lines.TLine × Lines.Eol)) (last : Lines.TLine)
    (hL : ∀ x ∈ L, x.1.OK ssw_env ssw_stmt) (hlast : last.OK ssw_env ssw_stmt)
    (hne : Lines.ttrees L last ≠ []) :
    parseDoc ssw_env ssw_grammar (String.ofList (Lines.ttext L last)) = some (Lines.ttrees L last) :=
  Lines.doc_layout ssw_stmt No_stmt_end L last hL hlast hne

end Dsd.PP.Ssw

namespace Dsd.C19
open Dsd.PP Dsd.Gen Dsd.PP.Ssw Dsd.PP.Tabs
open Dsd.PP.Lines (Line Eol Lang renderDoc docTrees IsWs CmOK TLine)

/-! ### documents with indented statements -/

/-- the side conditions of a line: whitespace of blanks / tabs / carriage returns, comments without line feed, an
    indentation of blanks / tabs, a statement text (at any start column) -/
def lineOK : TLine → Prop
  | .blank w cm => IsWs w ∧ CmOK cm
  | .stmt i b t cm => IsSep i ∧ StmtTextC b t ∧ CmOK cm

/-- **seesaw documents with indented statements**, given line by line: `Lines.ttext L last` is the concatenation of
    the lines `L` with their line ends (LF or CR LF) and of the unterminated line `last` (`TLine.blank [] none` when
    the text ends with a line end); a line is `w ++ comment` or `indent ++ body ++ comment`.  It parses as the trees
    of the statement lines, in order. -/
theorem ssw_document_indent_rt (L : List (TLine × Eol)) (last : TLine) (hL : ∀ x ∈ L, lineOK x.1)
    (hlast : lineOK last) (hne : Lines.ttrees L last ≠ []) :
    parseDoc ssw_env ssw_grammar (String.ofList (Lines.ttext L last)) = some (Lines.ttrees L last) := by
  have hT : ∀ l : TLine, lineOK l → l.OK ssw_env ssw_stmt := by
    intro l hl
    cases l with
    | blank w cm => exact hl
    | stmt i b t cm => exact ⟨hl.1, hl.2.1.body, hl.2.2⟩
  exact Ssw.document_lines_parse L last (fun x hx => hT x.1 (hL x hx)) (hT last hlast) hne

/-- every statement kind (`Kind`, Props/C19Complete.lean) with any blank/tab separators at its token boundaries, AT
    ANY START COLUMN -/
theorem Kind.textC {t0 : List Char} {toks : List (List Char)} {ts : List Tree} (h : Kind t0 toks ts)
    (ws : List (List Char)) (hws : SepsOK (tmOf t0 toks) ws) : StmtTextC (renderW (tmOf t0 toks) ws) (.grp ts) := by
  refine stmtTextC_of_template (tmOf t0 toks) ⟨h.notab0, toksOK_tmTail toks h.toksOK⟩ _ ?_ ws hws
  intro ks hk
  obtain ⟨S, hS, hr⟩ := render_tmTail toks ks hk
  show StmtText (t0 ++ render (tmTail toks) ks) _
  rw [hr]
  exact h.text S hS

/-! ### the eight statement kinds -/

/-- the statement kinds of the seesaw grammar, in every form of their arguments.  `output` carries the tokens and
    the tree of its value (a wire or a fluorophore: `OutVal`), `conc` those of its first argument (a wire, a gate or
    a threshold in either argument order: `ConcArg`). -/
inductive SswStmt
  /-- `INPUT(n) = w[a, b]` -/
  | input (n a b : List Char)
  /-- `OUTPUT(n) = w[a, b]`, `OUTPUT(n) = Fluor[f]` -/
  | output (n : List Char) (TV : List (List Char)) (tv : Tree)
  /-- `seesaw[n, {i0, …}, {o0, …}]` -/
  | seesaw (n i0 : List Char) (is : List (List Char)) (o0 : List Char) (os : List (List Char))
  /-- `conc[X, v*c]` -/
  | conc (TX : List (List Char)) (tx : Tree) (v : List Char)
  /-- `reporter[a, b]` -/
  | reporter (a b : List Char)
  /-- `inputfanout[a, b, {x0, …}]` -/
  | inputfanout (a b x0 : List Char) (xs : List (List Char))
  /-- `seesawOR[a, b, {x0, …}, {y0, …}]` -/
  | seesawOR (a b x0 : List Char) (xs : List (List Char)) (y0 : List Char) (ys : List (List Char))
  /-- `seesawAND[a, b, {x0, …}, {y0, …}]` -/
  | seesawAND (a b x0 : List Char) (xs : List (List Char)) (y0 : List Char) (ys : List (List Char))

/-- the first token: the keyword -/
def SswStmt.head : SswStmt → List Char
  | .input .. => ['I', 'N', 'P', 'U', 'T']
  | .output .. => ['O', 'U', 'T', 'P', 'U', 'T']
  | .seesaw .. => ['s', 'e', 'e', 's', 'a', 'w']
  | .conc .. => ['c', 'o', 'n', 'c']
  | .reporter .. => ['r', 'e', 'p', 'o', 'r', 't', 'e', 'r']
  | .inputfanout .. => ['i', 'n', 'p', 'u', 't', 'f', 'a', 'n', 'o', 'u', 't']
  | .seesawOR .. => ['s', 'e', 'e', 's', 'a', 'w', 'O', 'R']
  | .seesawAND .. => ['s', 'e', 'e', 's', 'a', 'w', 'A', 'N', 'D']

/-- the further tokens -/
def SswStmt.toks : SswStmt → List (List Char)
  | .input n a b => inputToks n a b
  | .output n TV _ => outputToks n TV
  | .seesaw n i0 is o0 os => seesawToks n i0 is o0 os
  | .conc TX _ v => concTail TX v
  | .reporter a b => reporterToks a b
  | .inputfanout a b x0 xs => fanoutToks a b x0 xs
  | .seesawOR a b x0 xs y0 ys => twoListToks a b x0 xs y0 ys
  | .seesawAND a b x0 xs y0 ys => twoListToks a b x0 xs y0 ys

/-- the layout template: an optional separator at every token boundary, and after the last token -/
def SswStmt.tmpl (s : SswStmt) : List Piece := tmOf s.head s.toks ++ [.sep false]

def SswStmt.ts : SswStmt → List Tree
  | .input n a b => [.tok "INPUT", .grp [tokOf n], .grp [.tok "w", .grp [tokOf a, tokOf b]]]
  | .output n _ tv => [.tok "OUTPUT", .grp [tokOf n], tv]
  | .seesaw n i0 is o0 os =>
    [.tok "seesaw", .grp [tokOf n, .grp ((i0 :: is).map tokOf), .grp ((o0 :: os).map tokOf)]]
  | .conc _ tx v => [.tok "conc", tx, tokOf v]
  | .reporter a b => [.tok "reporter", .grp [tokOf a, tokOf b]]
  | .inputfanout a b x0 xs => [.tok "inputfanout", .grp [tokOf a, tokOf b, .grp ((x0 :: xs).map tokOf)]]
  | .seesawOR a b x0 xs y0 ys =>
    [.tok "seesawOR", .grp [tokOf a, tokOf b, .grp ((x0 :: xs).map tokOf), .grp ((y0 :: ys).map tokOf)]]
  | .seesawAND a b x0 xs y0 ys =>
    [.tok "seesawAND", .grp [tokOf a, tokOf b, .grp ((x0 :: xs).map tokOf), .grp ((y0 :: ys).map tokOf)]]

/-- the tree of a statement -/
def SswStmt.tree (s : SswStmt) : Tree := .grp s.ts

/-- the side conditions: those of the summary theorem of the kind -/
def SswStmt.OK : SswStmt → Prop
  | .input n a b => NameTok n ∧ Digits a ∧ NumOrF b
  | .output n TV tv => NameTok n ∧ OutVal TV tv
  | .seesaw n i0 is o0 os => Digits n ∧ Digits i0 ∧ NumOrF o0 ∧ (∀ y ∈ is, Digits y) ∧ (∀ y ∈ os, NumOrF y)
  | .conc TX tx v => ConcArg TX tx ∧ GorfTok v
  | .reporter a b => Digits a ∧ Digits b
  | .inputfanout a b x0 xs => Digits a ∧ Digits b ∧ Digits x0 ∧ ∀ y ∈ xs, Digits y
  | .seesawOR a b x0 xs y0 ys => Digits a ∧ Digits b ∧ Digits x0 ∧ Digits y0 ∧ (∀ y ∈ xs, Digits y) ∧
      (∀ y ∈ ys, Digits y)
  | .seesawAND a b x0 xs y0 ys => Digits a ∧ Digits b ∧ Digits x0 ∧ Digits y0 ∧ (∀ y ∈ xs, Digits y) ∧
      (∀ y ∈ ys, Digits y)

/-- the eight `kind_*` theorems as one -/
theorem SswStmt.kind (s : SswStmt) (h : s.OK) : Kind s.head s.toks s.ts := by
  cases s with
  | input n a b => exact kind_input n a b h.1 h.2.1 h.2.2
  | output n TV tv => exact kind_output n h.1 h.2
  | seesaw n i0 is o0 os => exact kind_seesaw n i0 o0 is os h.1 h.2.1 h.2.2.1 h.2.2.2.1 h.2.2.2.2
  | conc TX tx v => exact kind_conc h.1 v h.2
  | reporter a b => exact kind_reporter a b h.1 h.2
  | inputfanout a b x0 xs => exact kind_inputfanout a b x0 xs h.1 h.2.1 h.2.2.1 h.2.2.2
  | seesawOR a b x0 xs y0 ys =>
    exact kind_seesawOR a b x0 y0 xs ys h.1 h.2.1 h.2.2.1 h.2.2.2.1 h.2.2.2.2.1 h.2.2.2.2.2
  | seesawAND a b x0 xs y0 ys =>
    exact kind_seesawAND a b x0 y0 xs ys h.1 h.2.1 h.2.2.1 h.2.2.2.1 h.2.2.2.2.1 h.2.2.2.2.2

/-- the eight summary theorems `*_layout`, as one (column 0) … -/
theorem SswStmt.layout (s : SswStmt) (h : s.OK) (ws : List (List Char)) (hws : SepsOK (tmOf s.head s.toks) ws) :
    StmtTextT (renderW (tmOf s.head s.toks) ws) s.tree := (s.kind h).textT ws hws

/-- … and at any start column -/
theorem SswStmt.textC (s : SswStmt) (h : s.OK) (ws : List (List Char)) (hws : SepsOK (tmOf s.head s.toks) ws) :
    StmtTextC (renderW (tmOf s.head s.toks) ws) s.tree := (s.kind h).textC ws hws

/-- … followed by a blank/tab separator: a statement line at any start column -/
theorem SswStmt.body (s : SswStmt) (h : s.OK) (gaps : List (List Char)) (hg : SepsOK s.tmpl gaps) :
    Lines.BodyT ssw_env ssw_stmt (renderW s.tmpl gaps) s.tree := by
  obtain ⟨ws, w, _, h1, h2, h3⟩ := Lines.sepsOK_snoc _ _ hg
  show Lines.BodyT ssw_env ssw_stmt (renderW (tmOf s.head s.toks ++ [.sep false]) gaps) s.tree
  rw [h3]
  exact (s.textC h ws h1).bodyW w h2

/-- `SepsOK s.tmpl gaps`: one blank/tab separator (possibly empty) per token boundary and one after the last token -/
theorem sepsOK_tmpl (s : SswStmt) (gaps : List (List Char)) (hlen : gaps.length = s.toks.length + 1)
    (hsep : ∀ w ∈ gaps, IsSep w) : SepsOK s.tmpl gaps := by
  obtain ⟨ws, w, rfl⟩ : ∃ ws w, gaps = ws ++ [w] := by
    cases h : gaps.reverse with
    | nil => simp at h; subst h; simp at hlen
    | cons w ws => exact ⟨ws.reverse, w, by rw [← List.reverse_reverse gaps, h]; simp⟩
  have h1 : SepsOK (tmOf s.head s.toks) ws :=
    (sepsOK_tmOf _ _ ws).mpr ⟨by simpa using hlen, fun x hx => hsep x (by simp [hx])⟩
  have h2 : IsSep w := hsep w (by simp)
  exact Lines.sepsOK_snoc_intro _ ws w h1 h2

/-! ### every layout -/

/-- the seesaw statement kinds as a family of layout templates -/
def sswLang : Lang SswStmt := ⟨SswStmt.tmpl, SswStmt.tree, SswStmt.OK⟩

/-- **seesaw, every layout.**  A document is a list of lines `L`, each with its line end (`Eol.lf` / `Eol.crlf`),
    and a last line without line end (`Line.blank [] none` if there is none).  A line is
    * `Line.blank w cm`: whitespace `w` (blanks, tabs, carriage returns) and an optional comment `#cm`, or
    * `Line.stmt indent s gaps cm`: the indentation (blanks, tabs), the statement `s : SswStmt` — any of the eight
      kinds in any form of its arguments — rendered from its template with the blank/tab separators `gaps`, one at
      every token boundary and one after the last token, each possibly empty (`SepsOK`, cf. `sepsOK_tmpl`), and an
      optional comment.
    `Line.OK` collects exactly these side conditions.  The text `renderDoc sswLang L last` parses as the trees of
    the statement lines, in order. -/
theorem ssw_every_layout (L : List (Line SswStmt × Eol)) (last : Line SswStmt) (hL : ∀ x ∈ L, x.1.OK sswLang)
    (hlast : last.OK sswLang) (hne : docTrees sswLang L last ≠ []) :
    parseDoc ssw_env ssw_grammar (String.ofList (renderDoc sswLang L last)) = some (docTrees sswLang L last) :=
  Lines.every_layout sswLang ssw_stmt Ssw.No_stmt_end
    (fun s hs ws hws => SswStmt.body s hs ws hws) L last hL hlast hne

/-! ### non-vacuity -/

/-- a number given literally -/
local macro "dgt" : term => `((⟨by decide, by decide⟩ : Digits _))

/-- a realistic seesaw document in a free layout: comment and blank lines, CR LF and LF line ends, indentation with
    blanks and tabs, tabs and blanks between tokens, trailing blanks, trailing comments, all eight statement kinds
    (identifier names, `f` outputs, a fluorophore, a wire and a gate concentration in decimal and scientific form),
    and an unterminated last line -/
def exLines : List (Line SswStmt × Eol) :=
  [(.blank [] (some " seesaw circuit".toList), .crlf),
   (.blank [] none, .crlf),
   (.stmt [] (.input ['1'] ['1'] ['5'])
      [[], [], [], [' '], [' '], [], [], [], [' '], [], []] none, .lf),
   (.stmt [' ', ' '] (.input ['x', '2'] ['2'] ['5'])
      [[], [], [], [' '], [' '], [], [], [], [], [], [' ', ' ', ' ']] (some " second input".toList), .crlf),
   (.stmt ['\t'] (.output ['6'] (fluorToks ['6']) (.grp [.tok "Fluor", .tok "6"]))
      [[], [], [], [' '], [' '], [], [], [], []] none, .lf),
   (.blank [' ', '\t', ' '] none, .lf),
   (.blank ['\t'] (some " gates".toList), .lf),
   (.stmt [' ', ' '] (.seesaw ['5'] ['1'] [['2']] ['6'] [['f']])
      [[], [], [], [' '], [], [], [' '], [], [], [' '], [], [], [' '], [], [], []] none, .lf),
   (.stmt ['\t'] (.conc (wireToks ['5'] ['6']) (wireT ['5'] ['6']) ['1', '.', '5'])
      [[], [], [], [], [], [' '], [], [], [' '], [], [], [], []] none, .crlf),
   (.stmt [' ', ' '] (.conc (gateToks ['g'] (wireToks ['5'] ['6']) [['5']])
        (.grp [.tok "g", .grp [wireT ['5'] ['6'], .tok "5"]]) ['2', 'e', '-', '1'])
      [[], [' '], [], [], [], [], [], [], [], [], [' '], [], [], ['\t'], [' '], [' '], [' '], []] none, .lf),
   (.stmt ['\t'] (.reporter ['6'] ['6'])
      [[], [], [], ['\t'], [], []] none, .lf),
   (.stmt [' ', ' '] (.inputfanout ['1'] ['2'] ['3'] [['4']])
      [[], [], [], [' '], [], [' '], [], [], [' '], [], [], []] none, .lf),
   (.stmt ['\t'] (.seesawOR ['1', '0'] ['1', '1'] ['1'] [['2']] ['1', '2'] [])
      [[], [], [], [' '], [], [' '], [], [], [' '], [], [], [' '], [], [], [], []] none, .lf)]

def exLast : Line SswStmt :=
  .stmt [' ', ' '] (.seesawAND ['1', '2'] ['1', '3'] ['1'] [] ['1', '4'] [['1', '5']])
      [[], [], [], [' '], [], [' '], [], [], [], [' '], [], [], [' '], [], [], [' ']] (some " end".toList)

theorem exLines_ok : ∀ x ∈ exLines, x.1.OK sswLang := by
  unfold exLines
  refine Lines.all_cons ⟨by decide, Lines.cmOK_some _ (by decide)⟩ ?_
  refine Lines.all_cons ⟨by decide, Lines.cmOK_none⟩ ?_
  refine Lines.all_cons ⟨by decide, ⟨Or.inl dgt, dgt, Or.inl dgt⟩, by decide, Lines.cmOK_none⟩ ?_
  refine Lines.all_cons ⟨by decide, ⟨Or.inr ⟨'x', ['2'], rfl, by decide, by decide⟩, dgt, Or.inl dgt⟩, by decide,
    Lines.cmOK_some _ (by decide)⟩ ?_
  refine Lines.all_cons ⟨by decide, ⟨Or.inl dgt, OutVal.fluor ['6'] dgt⟩, by decide, Lines.cmOK_none⟩ ?_
  refine Lines.all_cons ⟨by decide, Lines.cmOK_none⟩ ?_
  refine Lines.all_cons ⟨by decide, Lines.cmOK_some _ (by decide)⟩ ?_
  refine Lines.all_cons ⟨by decide, ⟨dgt, dgt, Or.inl dgt, Lines.all_cons dgt Lines.all_nil,
    Lines.all_cons (Or.inr rfl) Lines.all_nil⟩, by decide, Lines.cmOK_none⟩ ?_
  refine Lines.all_cons ⟨by decide, ⟨ConcArg.wire ['5'] ['6'] dgt (Or.inl dgt), gorf_dec ['1'] ['5'] dgt dgt⟩,
    by decide, Lines.cmOK_none⟩ ?_
  refine Lines.all_cons ⟨by decide, ⟨ConcArg.gateO ['5'] ['6'] ['5'] dgt (Or.inl dgt) dgt,
    gorf_sci_minus ['2'] ['1'] dgt dgt⟩, by decide, Lines.cmOK_none⟩ ?_
  refine Lines.all_cons ⟨by decide, ⟨dgt, dgt⟩, by decide, Lines.cmOK_none⟩ ?_
  refine Lines.all_cons ⟨by decide, ⟨dgt, dgt, dgt, Lines.all_cons dgt Lines.all_nil⟩, by decide,
    Lines.cmOK_none⟩ ?_
  refine Lines.all_cons ⟨by decide, ⟨dgt, dgt, dgt, dgt, Lines.all_cons dgt Lines.all_nil, Lines.all_nil⟩,
    by decide, Lines.cmOK_none⟩ ?_
  exact Lines.all_nil

theorem exLast_ok : exLast.OK sswLang :=
  ⟨by decide, ⟨dgt, dgt, dgt, dgt, Lines.all_nil, Lines.all_cons dgt Lines.all_nil⟩, by decide,
    Lines.cmOK_some _ (by decide)⟩


theorem ex_ne : docTrees sswLang exLines exLast ≠ [] := by
  intro e; have := congrArg List.length e; revert this; decide

/-- the document of `exLines` / `exLast`, from `ssw_every_layout` (the text is compared character by character) … -/
example : parseDoc ssw_env ssw_grammar
    (String.join
      ["# seesaw circuit\r\n",
       "\r\n",
       "INPUT(1) = w[1, 5]\n",
       "  INPUT(x2) = w[2,5]   # second input\r\n",
       "\tOUTPUT(6) = Fluor[6]\n",
       " \t \n",
       "\t# gates\n",
       "  seesaw[5, {1, 2}, {6, f}]\n",
       "\tconc[w[5, 6], 1.5*c]\r\n",
       "  conc[ g[w[5,6], 5],\t2e-1 * c ]\n",
       "\treporter[6,\t6]\n",
       "  inputfanout[1, 2, {3, 4}]\n",
       "\tseesawOR[10, 11, {1, 2}, {12}]\n",
       "  seesawAND[12, 13, {1}, {14, 15}] # end"]) =
    some [.grp [.tok "INPUT", .grp [.tok "1"], .grp [.tok "w", .grp [.tok "1", .tok "5"]]],
      .grp [.tok "INPUT", .grp [.tok "x2"], .grp [.tok "w", .grp [.tok "2", .tok "5"]]],
      .grp [.tok "OUTPUT", .grp [.tok "6"], .grp [.tok "Fluor", .tok "6"]],
      .grp [.tok "seesaw", .grp [.tok "5", .grp [.tok "1", .tok "2"], .grp [.tok "6", .tok "f"]]],
      .grp [.tok "conc", .grp [.tok "w", .grp [.tok "5", .tok "6"]], .tok "1.5"],
      .grp [.tok "conc", .grp [.tok "g", .grp [.grp [.tok "w", .grp [.tok "5", .tok "6"]], .tok "5"]], .tok "2e-1"],
      .grp [.tok "reporter", .grp [.tok "6", .tok "6"]],
      .grp [.tok "inputfanout", .grp [.tok "1", .tok "2", .grp [.tok "3", .tok "4"]]],
      .grp [.tok "seesawOR", .grp [.tok "10", .tok "11", .grp [.tok "1", .tok "2"], .grp [.tok "12"]]],
      .grp [.tok "seesawAND", .grp [.tok "12", .tok "13", .grp [.tok "1"], .grp [.tok "14", .tok "15"]]]] := by
  have h := ssw_every_layout exLines exLast exLines_ok exLast_ok ex_ne
  exact Lines.parse_of_lines _ _ _ _ h (by decide +kernel)

/-- … and directly -/
example : parseDoc ssw_env ssw_grammar
    (String.join
      ["# seesaw circuit\r\n",
       "\r\n",
       "INPUT(1) = w[1, 5]\n",
       "  INPUT(x2) = w[2,5]   # second input\r\n",
       "\tOUTPUT(6) = Fluor[6]\n",
       " \t \n",
       "\t# gates\n",
       "  seesaw[5, {1, 2}, {6, f}]\n",
       "\tconc[w[5, 6], 1.5*c]\r\n",
       "  conc[ g[w[5,6], 5],\t2e-1 * c ]\n",
       "\treporter[6,\t6]\n",
       "  inputfanout[1, 2, {3, 4}]\n",
       "\tseesawOR[10, 11, {1, 2}, {12}]\n",
       "  seesawAND[12, 13, {1}, {14, 15}] # end"]) =
    some [.grp [.tok "INPUT", .grp [.tok "1"], .grp [.tok "w", .grp [.tok "1", .tok "5"]]],
      .grp [.tok "INPUT", .grp [.tok "x2"], .grp [.tok "w", .grp [.tok "2", .tok "5"]]],
      .grp [.tok "OUTPUT", .grp [.tok "6"], .grp [.tok "Fluor", .tok "6"]],
      .grp [.tok "seesaw", .grp [.tok "5", .grp [.tok "1", .tok "2"], .grp [.tok "6", .tok "f"]]],
      .grp [.tok "conc", .grp [.tok "w", .grp [.tok "5", .tok "6"]], .tok "1.5"],
      .grp [.tok "conc", .grp [.tok "g", .grp [.grp [.tok "w", .grp [.tok "5", .tok "6"]], .tok "5"]], .tok "2e-1"],
      .grp [.tok "reporter", .grp [.tok "6", .tok "6"]],
      .grp [.tok "inputfanout", .grp [.tok "1", .tok "2", .grp [.tok "3", .tok "4"]]],
      .grp [.tok "seesawOR", .grp [.tok "10", .tok "11", .grp [.tok "1", .tok "2"], .grp [.tok "12"]]],
      .grp [.tok "seesawAND", .grp [.tok "12", .tok "13", .grp [.tok "1"], .grp [.tok "14", .tok "15"]]]] :=
  Lines.parse_lines_direct _ _ _ (by decide +kernel)

/-! a short document as a plain string literal: an indented `reporter` with tabs around its tokens and a trailing
    comment, CR LF, an indented `INPUT` with an identifier name -/

def exShort : List (Line SswStmt × Eol) :=
  [(.stmt [' ', '\t'] (.reporter ['3'] ['7']) [['\t'], [], [], [' '], [], [' ', ' ']] (some " r".toList), .crlf),
   (.stmt [' ', ' ', ' ', ' '] (.input ['x'] ['1'] ['f']) [[], [], [], [' '], [' '], [], [], [], [], [], []] none, .lf)]

/-- from `ssw_every_layout` … -/
example : parseDoc ssw_env ssw_grammar " \treporter\t[3, 7]  # r\r\n    INPUT(x) = w[1,f]\n" =
    some [.grp [.tok "reporter", .grp [.tok "3", .tok "7"]],
          .grp [.tok "INPUT", .grp [.tok "x"], .grp [.tok "w", .grp [.tok "1", .tok "f"]]]] := by
  have h := ssw_every_layout exShort (.blank [] none)
    (Lines.all_cons ⟨by decide, ⟨dgt, dgt⟩, by decide, Lines.cmOK_some _ (by decide)⟩
      (Lines.all_cons ⟨by decide, ⟨Or.inr ⟨'x', [], rfl, by decide, by decide⟩, dgt, Or.inr rfl⟩, by decide,
        Lines.cmOK_none⟩ Lines.all_nil))
    ⟨by decide, Lines.cmOK_none⟩ (by intro e; have := congrArg List.length e; revert this; decide)
  exact parse_of_text _ _ _ _ _ h (by decide +kernel)

/-- … and directly -/
example : parseDoc ssw_env ssw_grammar " \treporter\t[3, 7]  # r\r\n    INPUT(x) = w[1,f]\n" =
    some [.grp [.tok "reporter", .grp [.tok "3", .tok "7"]],
          .grp [.tok "INPUT", .grp [.tok "x"], .grp [.tok "w", .grp [.tok "1", .tok "f"]]]] := by
  rfl

end Dsd.C19
