/-
`DomainS.identifiers` (dsdobjects/base_classes.py) AS WRITTEN: statements about its statement-level translation
`Gen.py_DomainS_identifiers` (Gen/PyDomain.lean, regenerated from the working tree by translator/pydomain.py), in which the nested
metaclass calls `cls(…)` are the parameter `request`.

STATUS: this file proves what holds for EVERY `request` parameter about the first part of the method (the dtype / length rules of C04:
`dtype_length_contradiction`, `dtype_default_lengths` at the level of `identifiers`) and kernel-checks whole requests - the
hand-written knot `DriverDomain.requestPy` around the translated `identifiers` and the translated `Singleton.__call__` - on concrete
histories with temporaries.  NOT proved here: the equality with `DomFull.identifiers` / `DomFull.domainRequestFull` under a
representation relation, and the transfer of `complement_lengths_agree`, `conflict_raises`, `invert_involutive` (see
INTEGRATION_Domain.md); the stream compares the same objects on C04's histories instead.
-/
import DsdVerif.Gen.PyDomain
import DsdVerif.Lemmas.PySingleton
import DsdVerif.DriverDomain
import DsdVerif.Model.DomainFull

namespace Dsd.PyDomain
open Dsd Dsd.Gen Dsd.PySingletonL

/-- `C04.dtype_length_contradiction` at the level of the code: a request that gives both a length and a dtype which contradict each
    other under the class cut-off raises ObjectInitError before any nested request is made - whatever `request` is, for every name /
    prefix, and the class is unchanged -/
theorem py_identifiers_dtype_length_contradiction (request : Py.Dom.Req → Py.Dom.M Nat) (tmp cutoff sh lo : Nat) (pre : String)
    (name : Option String) (l : Nat) (pfx : Option String) (d : String) (hd : d = "short" ∨ d = "long")
    (hc : (d == "short") ≠ decide (l ≤ cutoff)) (s : Py.Dom.Cls) :
    (py_DomainS_identifiers request tmp cutoff sh lo pre name (some l) pfx (some d)).exec s = (.error .objectInit, s) := by
  have ht : Py.Dom.truthyOS (some d) = true := by rcases hd with rfl | rfl <;> decide
  have hc' : (!((some d == some "short") == decide (l ≤ cutoff))) = true := by
    have : (some d == some "short") = (d == "short") := by simp
    rw [this]
    cases h1 : (d == "short") <;> cases h2 : decide (l ≤ cutoff) <;> simp_all
  unfold py_DomainS_identifiers
  cases name <;> cases pfx <;>
    simp only [exec_ite, exec_bind, exec_get, exec_pure, exec_throw, exec_lift, exec_monadLift, Py.unwrap, ht, hc',
      Option.isNone_none, Option.isNone_some, Option.isSome_some, if_true, if_false, Bool.false_eq_true] <;>
    simp_all [pure, Except.pure]

/-- `DomFull.lengthArg` refuses exactly these requests -/
theorem model_refuses_same (cfg : DomCfg) (q : DomReq) (l : Nat) (d : DType) (hl : q.length = some l) (hd : q.dtype = some d)
    (hc : (d == .short) ≠ decide (l ≤ cfg.cutoff)) : DomFull.lengthArg cfg q = .error () := by
  unfold DomFull.lengthArg
  rw [hl, hd]
  simp only
  rw [if_neg]
  intro h
  exact hc (by simpa using h)

/-! ### whole requests, kernel-checked (the knot `DriverDomain.requestPy`: translated identifiers + translated `Singleton.__call__`) -/

set_option maxRecDepth 100000 in
open DriverDomain in
/-- a history with temporaries (identities: objects 0, 2, …, temporaries the odd numbers): `a` (5) is created; `a*` without length
    inherits 5 through the nested request and is created; `a*` with length 9 is refused; declaring `b*` (7) creates and destroys the
    temporary `b` twice - no trace of it remains in either dictionary or in the heap; `b` with the wrong length 8 is then refused -/
theorem history_with_temporaries :
    let req := fun (s : Py.Dom.Cls) (fresh : Nat) (q : Py.Dom.Req) => Py.MS.exec (requestPy 8 5 15 "d" 6 fresh (fresh + 1) q) s
    let (o1, s1) := req {} 0 { name := some "a", length := some 5 }
    let (o2, s2) := req s1 2 { name := some "a*" }
    let (o3, s3) := req s2 4 { name := some "a*", length := some 9 }
    let (o4, s4) := req s3 6 { name := some "b*", length := some 7 }
    let (o5, s5) := req s4 8 { name := some "b", length := some 8 }
    [o1, o2, o3, o4, o5] = [.ok 0, .ok 2, .error (.singleton none), .ok 6, .error (.singleton none)] ∧
    s5.reg._instanceNames = [("a", 0), ("a*", 2), ("b*", 6)] ∧
    s5.reg._instanceCanon = [(("a", 5), 0), (("a*", 5), 2), (("b*", 7), 6)] ∧
    s5.heap = [(0, ⟨"a", some 5⟩), (2, ⟨"a*", some 5⟩), (6, ⟨"b*", some 7⟩)] ∧ s5.ID = 1 := by
  decide

#print axioms py_identifiers_dtype_length_contradiction
#print axioms model_refuses_same
#print axioms history_with_temporaries

end Dsd.PyDomain
