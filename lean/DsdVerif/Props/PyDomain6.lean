/-
(d) the step of the induction on the nesting depth, as far as it is proved: `requestPy (fuel+1)` is the translated `identifiers`
followed by `tailPy` (`py_requestPy_succ`), and `tailPy` in the sub-case "no object is created" (the object exists, or the request is
refused) is `Reg.call` with the class unchanged (`py_tail_not_created`).  NOT proved: the sub-case "creation" (`tailPy` with a free
name and canonical form = `Reg.register`; ingredients: `PyDomain4.py_zoom_call`, `PyDomain4.py_register_eq`), hence the step, the
induction on fuel, `requestPy = DomFull.domainRequestFull` up to `RepX`, and the transfers.
-/
import DsdVerif.Lemmas.PyDomainEqStep

namespace Dsd.PyDomain6
open Dsd Dsd.Gen Dsd.PyDomainEq

theorem py_requestPy_succ (c sh lo : Nat) (pfx : String) (fuel fresh tmp : Nat) (q : Py.Dom.Req) :
    PyDomainRequest.requestPy c sh lo pfx (fuel + 1) fresh tmp q =
      (Gen.py_DomainS_identifiers (PyDomainRequest.requestPy c sh lo pfx fuel tmp tmp) tmp c sh lo pfx q.name q.length q.prefix_ q.dtype
        >>= fun x => tailPy sh lo pfx fresh q x.1 x.2.1 x.2.2) :=
  requestPy_succ c sh lo pfx fuel fresh tmp q

theorem py_tail_not_created (s : Py.Dom.Cls) (r : Reg DKey) (h : RepX s r) (fresh : Nat) (hf : ∀ o ∈ r.objs, o.id ≠ fresh)
    (sh lo : Nat) (pfx : String) (q : Py.Dom.Req) (canon : Option DKey) (name : String) (kw : Option Nat) (auto : Bool) (hne : name ≠ "")
    (hnc : ∀ id, (r.call canon (some name) fresh canon.toList auto).2 ≠ .ret id true) :
    (tailPy sh lo pfx fresh q canon name kw).exec s = (toRes (r.call canon (some name) fresh canon.toList auto).2, s) ∧
    (r.call canon (some name) fresh canon.toList auto).1 = r :=
  tailPy_not_created s r h hf sh lo pfx q canon name kw auto hne hnc

#print axioms py_requestPy_succ
#print axioms py_tail_not_created

end Dsd.PyDomain6
