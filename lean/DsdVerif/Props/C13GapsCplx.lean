import DsdVerif.Props.C13GapsRx
import DsdVerif.Lemmas.PilGapsCplx

namespace Dsd.C13
open Dsd Dsd.PP Dsd.Gen Dsd.PP.Tabs
open Dsd.Pil (StmtText StmtTextL StmtTextT Tail NbTail eolG Num SItem)

/-! C13, "arbitrary spaces and tabs at every token boundary", continued: strand-notation complexes (`structure` and
`complex` form), kernel complexes with a concentration, and the summary theorems of the domain statements. -/

/-- a statement text that is the rendering of a template, in front of continuations that do not start with a blank -/
theorem stmtTextL_of_render' (tm : List Piece) (ks : List Nat) (t : Tree) (c : Char) (s0 : List Char)
    (ps : List Piece) (htm : tm = .tok (c :: s0) :: ps) (hc : Pil.StartCh c) (htok : ToksOK tm)
    (N : Nat) (hN : N ≤ 4 * (render tm ks).length + 100)
    (hok : ∀ (X : List Char) (NE : Nat) (p : Pos), NbTail X →
      Ok pil_env NE {} eolG { rest := X, past := false } (p, []) →
      Ok pil_env (max N (NE + 30)) {} pil_stmt { rest := render tm ks ++ X, past := false } (p, [t])) :
    StmtTextL (render tm ks) t := by
  refine ⟨⟨c, ?_, hc⟩, notab_render tm ks htok, N, hN, hok⟩
  rw [htm, render_cons_tok]; rfl

/-! ### `structure` -/

/-- the domains of a strand list (the `+` signs are dropped by the grammar) -/
def sitemDoms (items : List SItem) : List (List Char) := items.filterMap id

/-- every token boundary of `structure name = d1 d2 + d3 : dotbracket`: a separator is mandatory after the keyword
    and between two consecutive domains; everywhere else — around the assignment signs, around `+` — it is optional.
    After the dot-bracket no separator is possible (its `Word` contains the blank). -/
def structTmpl (name : List Char) (s1 : Char) (it : SItem) (its : List SItem) (s2 : Char) (db : List Char) :
    List Piece :=
  [.tok "structure".toList, .sep true, .tok name, .sep false, .tok [s1]] ++
    (Pil.sitemPieces false (it :: its) ++ [.sep false, .tok [s2], .sep false, .tok db])

/-- the same with the keyword spelled out -/
def structTmplX (name : List Char) (s1 : Char) (it : SItem) (its : List SItem) (s2 : Char) (db : List Char) :
    List Piece :=
  [.tok ['s', 't', 'r', 'u', 'c', 't', 'u', 'r', 'e'], .sep true, .tok name, .sep false, .tok [s1]] ++
    (Pil.sitemPieces false (it :: its) ++ [.sep false, .tok [s2], .sep false, .tok db])

theorem structTmpl_eq (name : List Char) (s1 : Char) (it : SItem) (its : List SItem) (s2 : Char) (db : List Char) :
    structTmpl name s1 it its s2 db = structTmplX name s1 it its s2 db := rfl

theorem toksOK_sitems (items : List SItem) (prev : Bool) (tl : List Piece) (h : ∀ d, some d ∈ items → '\t' ∉ d)
    (htl : ToksOK tl) : ToksOK (Pil.sitemPieces prev items ++ tl) := by
  induction items generalizing prev with
  | nil => exact htl
  | cons it its ih =>
    refine ⟨?_, ih _ (fun d hd => h d (List.mem_cons_of_mem _ hd))⟩
    cases it with
    | none => decide
    | some d => exact h d (by simp)

theorem tokCount_sitems (items : List SItem) (prev : Bool) (tl : List Piece) :
    tokCount (Pil.sitemPieces prev items ++ tl) = items.length + tokCount tl := by
  induction items generalizing prev with
  | nil => simp [Pil.sitemPieces]
  | cons it its ih => simp only [Pil.sitemPieces, List.cons_append, tokCount, ih, List.length_cons]; omega

theorem toksNonempty_sitems (items : List SItem) (prev : Bool) (tl : List Piece) (h : ∀ d, some d ∈ items → d ≠ [])
    (htl : ToksNonempty tl) : ToksNonempty (Pil.sitemPieces prev items ++ tl) := by
  induction items generalizing prev with
  | nil => exact htl
  | cons it its ih =>
    refine ⟨?_, ih _ (fun d hd => h d (List.mem_cons_of_mem _ hd))⟩
    cases it with
    | none => simp [Pil.sitemTok]
    | some d => exact h d (by simp)

theorem itemToks_zip (items : List SItem) (cs : List Nat) (h : cs.length = items.length) :
    Pil.itemToks (items.zip cs) = (sitemDoms items).map tokOf := by
  induction items generalizing cs with
  | nil => simp [Pil.itemToks, sitemDoms]
  | cons it its ih =>
    cases cs with
    | nil => simp at h
    | cons c cs =>
      have := ih cs (by simpa using h)
      cases it with
      | none => simpa [Pil.itemToks, sitemDoms] using this
      | some d => simp [Pil.itemToks, sitemDoms, tokOf] at this ⊢; exact this

theorem struct_blanks (name : List Char) (s1 s2 : Char) (hs1 : s1 = '=' ∨ s1 = ':') (hs2 : s2 = '=' ∨ s2 = ':')
    (it : SItem) (its : List SItem) (db : List Char) (hn : Ident name)
    (hd : ∀ d, some d ∈ it :: its → DomName d) (hdb : DotBracket db) (ks : List Nat)
    (hk : CountsOK (structTmpl name s1 it its s2 db) ks) :
    StmtTextL (render (structTmpl name s1 it its s2 db) ks)
      (.grp [.tok "strand-complex", tokOf name, .grp ((sitemDoms (it :: its)).map tokOf), tokOf db]) := by
  obtain ⟨nc, m, rfl, hnc, hm⟩ := Pil.cons_of_class name _ hn
  obtain ⟨dbc, dbm, rfl, hdbc, hdbm⟩ := dotBracket_core db hdb
  rw [structTmpl_eq] at hk ⊢
  have hsg1 : '\t' ∉ [s1] := by rcases hs1 with rfl | rfl <;> decide
  have hsg2 : '\t' ∉ [s2] := by rcases hs2 with rfl | rfl <;> decide
  have hdt : ∀ d, some d ∈ it :: its → '\t' ∉ d := fun d h => notab_domName d (hd d h)
  have hdI : ∀ d, some d ∈ it :: its → Pil.IsDom d := fun d h => domName_isDom d (hd d h)
  have htok : ToksOK (structTmplX (nc :: m) s1 it its s2 (dbc :: dbm)) :=
    ⟨by decide, notab_cons nc m hnc hm, hsg1,
      toksOK_sitems _ _ _ hdt ⟨hsg2, Pil.notab_db dbc dbm hdbc hdbm, trivial⟩⟩
  have hne : ToksNonempty (structTmplX (nc :: m) s1 it its s2 (dbc :: dbm)) :=
    ⟨by simp, by simp, by simp,
      toksNonempty_sitems _ _ _ (fun d h => domName_ne_nil d (hd d h)) ⟨by simp, by simp, trivial⟩⟩
  have hcnt : its.length ≤ tokCount (structTmplX (nc :: m) s1 it its s2 (dbc :: dbm)) := by
    unfold structTmplX
    simp only [List.cons_append, List.nil_append, tokCount, tokCount_sitems, List.length_cons]
    omega
  have hlen := tokCount_le _ ks hne
  unfold structTmplX at hk
  rcases ks with _ | ⟨c1, _ | ⟨c2, ks⟩⟩ <;> simp [CountsOK] at hk
  obtain ⟨h1', hrest⟩ := hk
  obtain ⟨a, rfl⟩ : ∃ a, c1 = a + 1 := ⟨c1 - 1, by omega⟩
  obtain ⟨cs, ks', hl, hok, ht, hr⟩ := Pil.render_sitems (it :: its) false _ ks hdI hrest
  rcases ks' with _ | ⟨g, _ | ⟨h, _ | ⟨e2, ks''⟩⟩⟩ <;> simp [CountsOK] at ht
  cases cs with
  | nil => simp at hl
  | cons k0 cs =>
    have hl' : cs.length = its.length := by simpa using hl
    have hzl : (its.zip cs).length = its.length := by rw [List.length_zip, hl']; simp
    refine stmtTextL_of_render' _ _ _ 's' ['t', 'r', 'u', 'c', 't', 'u', 'r', 'e'] _ rfl
      ⟨by decide, by decide, by decide⟩ htok (its.length + 50) (by omega) ?_
    intro X NE p hX heol
    have := Pil.struct_stmt_tailW (a + 1) (Nat.succ_pos a) nc m c2 s1 s2 hs1 hs2 (it, k0) (its.zip cs) g h dbc dbm X NE
      p hnc hm (by simpa using hok) hdbc hdbm hX.outDb heol
    rw [hzl] at this
    have htoks : Pil.itemToks ((it, k0) :: its.zip cs) = (sitemDoms (it :: its)).map tokOf := by
      have := itemToks_zip (it :: its) (k0 :: cs) hl
      simpa using this
    rw [htoks] at this
    have htext : render (structTmplX (nc :: m) s1 it its s2 (dbc :: dbm)) ((a + 1) :: c2 :: ks) ++ X =
        's' :: (['t', 'r', 'u', 'c', 't', 'u', 'r', 'e'] ++
          Pil.structTextW (a + 1) nc m c2 s1 ((it, k0) :: its.zip cs) g s2 h dbc dbm X) := by
      unfold structTmplX
      simp only [List.cons_append, List.nil_append, render, hr]
      simp [Pil.structTextW, List.append_assoc]
    rw [htext]
    exact this

/-- **`structure`: arbitrary blanks and tabs at every token boundary** (domains and `+` in any order) -/
theorem struct_layout (name : List Char) (s1 s2 : Char) (hs1 : s1 = '=' ∨ s1 = ':') (hs2 : s2 = '=' ∨ s2 = ':')
    (it : SItem) (its : List SItem) (db : List Char) (hn : Ident name)
    (hd : ∀ d, some d ∈ it :: its → DomName d) (hdb : DotBracket db) (gaps : List (List Char))
    (hg : SepsOK (structTmpl name s1 it its s2 db) gaps) :
    StmtTextT (renderW (structTmpl name s1 it its s2 db) gaps)
      (.grp [.tok "strand-complex", tokOf name, .grp ((sitemDoms (it :: its)).map tokOf), tokOf db]) := by
  have hsg1 : '\t' ∉ [s1] := by rcases hs1 with rfl | rfl <;> decide
  have hsg2 : '\t' ∉ [s2] := by rcases hs2 with rfl | rfl <;> decide
  refine stmtTextT_of_template _ ?_ _ (fun ks hk => struct_blanks name s1 s2 hs1 hs2 it its db hn hd hdb ks hk) gaps hg
  exact ⟨by decide, Pil.notab_ident name hn.2, hsg1,
    toksOK_sitems _ _ _ (fun d h => notab_domName d (hd d h)) ⟨hsg2, notab_dotBracket db hdb, trivial⟩⟩

/-- the restrictions are real: two domain names without a separator are one name; a blank after the dot-bracket
    becomes part of its token -/
example : parseDoc pil_env pil_grammar "structure c = ab : ..\n" =
    some [.grp [.tok "strand-complex", .tok "c", .grp [.tok "ab"], .tok ".."]] := by rfl
example : parseDoc pil_env pil_grammar "structure c = a b : .. \n" =
    some [.grp [.tok "strand-complex", .tok "c", .grp [.tok "a", .tok "b"], .tok ".. "]] := by rfl

/-- non-vacuity: `structure c=a b +c* : (.+)` with tabs -/
example : parseDoc pil_env pil_grammar "structure\tc=a\tb +c*\t:\t(.+)\n" =
    some [.grp [.tok "strand-complex", .tok "c", .grp [.tok "a", .tok "b", .tok "c*"], .tok "(.+)"]] := by
  have sep : ∀ w : List Char, (∀ c ∈ w, c = ' ' ∨ c = '\t') → IsSep w := fun w h => h
  have h := stmt_tabs_rt _ _ (struct_layout ['c'] '=' ':' (Or.inl rfl) (Or.inr rfl) (some ['a'])
    [some ['b'], none, some ['c', '*']] ['(', '.', '+', ')'] (ident_single 'c' (by decide))
    (by
      intro d hd
      simp only [List.mem_cons, Option.some.injEq, List.not_mem_nil, or_false] at hd
      rcases hd with rfl | rfl | h | rfl
      · exact ⟨['a'], false, rfl, ident_single 'a' (by decide)⟩
      · exact ⟨['b'], false, rfl, ident_single 'b' (by decide)⟩
      · cases h
      · exact ⟨['c'], true, rfl, ident_single 'c' (by decide)⟩)
    ⟨by simp, by decide⟩
    [['\t'], [], [], ['\t'], [' '], [], ['\t'], ['\t']]
    ⟨sep _ (by decide), by simp, sep _ (by decide), by simp, sep _ (by decide), by simp, sep _ (by decide), by simp,
      sep _ (by decide), by simp, sep _ (by decide), by simp, sep _ (by decide), by simp, sep _ (by decide), by simp,
      rfl⟩)
  exact parse_of_text _ _ _ _ _ h (by decide +kernel)

/-! ### `complex` -/

/-- every token boundary of the three-line `complex` form; the two line feeds are tokens of the template -/
def complexTmpl (name : List Char) (sign : Char) (d : List Char) (ds : List (List Char)) (db : List Char) :
    List Piece :=
  [.tok ['c', 'o', 'm', 'p', 'l', 'e', 'x'], .sep true, .tok name, .sep false, .tok [sign], .sep false, .tok ['\n'],
      .sep false, .tok d] ++
    (ds.flatMap (fun x => [Piece.sep true, Piece.tok x]) ++ [.sep false, .tok ['\n'], .sep false, .tok db])

theorem complex_blanks (name : List Char) (sign : Char) (hs : sign = '=' ∨ sign = ':') (d : List Char)
    (ds : List (List Char)) (db : List Char) (hn : Ident name) (hd : ∀ x ∈ d :: ds, DomName x) (hdb : DotBracket db)
    (ks : List Nat) (hk : CountsOK (complexTmpl name sign d ds db) ks) :
    StmtTextL (render (complexTmpl name sign d ds db) ks)
      (.grp [.tok "strand-complex", tokOf name, .grp ((d :: ds).map tokOf), tokOf db]) := by
  obtain ⟨nc, m, rfl, hnc, hm⟩ := Pil.cons_of_class name _ hn
  obtain ⟨dbc, dbm, rfl, hdbc, hdbm⟩ := dotBracket_core db hdb
  have hsg : '\t' ∉ [sign] := by rcases hs with rfl | rfl <;> decide
  have hdd := domName_isDom d (hd d (by simp))
  have hds : ∀ x ∈ ds, Pil.IsDom x := fun x hx => domName_isDom x (hd x (List.mem_cons_of_mem _ hx))
  have htok : ToksOK (complexTmpl (nc :: m) sign d ds (dbc :: dbm)) :=
    ⟨by decide, notab_cons nc m hnc hm, hsg, by decide, Pil.notab_dom d hdd,
      toksOK_sepToks ds _ (fun x hx => Pil.notab_dom x (hds x hx)) ⟨by decide, Pil.notab_db dbc dbm hdbc hdbm, trivial⟩⟩
  have hne : ToksNonempty (complexTmpl (nc :: m) sign d ds (dbc :: dbm)) :=
    ⟨by simp, by simp, by simp, by simp, domName_ne_nil d (hd d (by simp)),
      toksNonempty_sepToks ds _ (fun x hx => domName_ne_nil x (hd x (List.mem_cons_of_mem _ hx)))
        ⟨by simp, by simp, trivial⟩⟩
  have hcnt : ds.length ≤ tokCount (complexTmpl (nc :: m) sign d ds (dbc :: dbm)) := by
    unfold complexTmpl
    simp only [List.cons_append, List.nil_append, tokCount, tokCount_sepToks]
    omega
  have hlen := tokCount_le _ ks hne
  unfold complexTmpl at hk
  rcases ks with _ | ⟨c1, _ | ⟨c2, _ | ⟨c3, _ | ⟨c4, ks⟩⟩⟩⟩ <;> simp [CountsOK] at hk
  obtain ⟨h1', hrest⟩ := hk
  obtain ⟨a, rfl⟩ : ∃ a, c1 = a + 1 := ⟨c1 - 1, by omega⟩
  obtain ⟨cs, ks', hl, ht, hr⟩ := Pil.render_sepToks ds _ ks hrest
  rcases ks' with _ | ⟨g5, _ | ⟨g6, _ | ⟨e2, ks''⟩⟩⟩ <;> simp [CountsOK] at ht
  have hmapfst : (ds.zip cs).map (·.1) = ds := List.map_fst_zip (by rw [hl]; exact Nat.le_refl _)
  have hzl : (ds.zip cs).length = ds.length := by rw [List.length_zip, hl]; simp
  refine stmtTextL_of_render' _ _ _ 'c' ['o', 'm', 'p', 'l', 'e', 'x'] _ rfl ⟨by decide, by decide, by decide⟩ htok
    (ds.length + 40) (by omega) ?_
  intro X NE p hX heol
  have hds' : ∀ x ∈ ds.zip cs, Pil.IsDom x.1 := by
    intro x hx
    exact hds x.1 (by rw [← hmapfst]; exact List.mem_map_of_mem hx)
  have := Pil.complex_stmt_tailW (a + 1) (Nat.succ_pos a) nc m c2 sign hs c3 c4 d (ds.zip cs) g5 g6 dbc dbm X NE p
    hnc hm hdd hds' hdbc hdbm hX.outDb heol
  rw [hmapfst, hzl] at this
  have htext : render (complexTmpl (nc :: m) sign d ds (dbc :: dbm)) ((a + 1) :: c2 :: c3 :: c4 :: ks) ++ X =
      'c' :: (['o', 'm', 'p', 'l', 'e', 'x'] ++
        Pil.complexTextW (a + 1) nc m c2 sign c3 c4 d (ds.zip cs) g5 g6 dbc dbm X) := by
    unfold complexTmpl
    simp only [List.cons_append, List.nil_append, render, hr]
    simp [Pil.complexTextW, List.append_assoc]
  rw [htext]
  exact this

/-- **`complex`: arbitrary blanks and tabs at every token boundary** -/
theorem complex_layout (name : List Char) (sign : Char) (hs : sign = '=' ∨ sign = ':') (d : List Char)
    (ds : List (List Char)) (db : List Char) (hn : Ident name) (hd : ∀ x ∈ d :: ds, DomName x) (hdb : DotBracket db)
    (gaps : List (List Char)) (hg : SepsOK (complexTmpl name sign d ds db) gaps) :
    StmtTextT (renderW (complexTmpl name sign d ds db) gaps)
      (.grp [.tok "strand-complex", tokOf name, .grp ((d :: ds).map tokOf), tokOf db]) := by
  have hsg : '\t' ∉ [sign] := by rcases hs with rfl | rfl <;> decide
  refine stmtTextT_of_template _ ?_ _ (fun ks hk => complex_blanks name sign hs d ds db hn hd hdb ks hk) gaps hg
  exact ⟨by decide, Pil.notab_ident name hn.2, hsg, by decide, notab_domName d (hd d (by simp)),
    toksOK_sepToks ds _ (fun x hx => notab_domName x (hd x (List.mem_cons_of_mem _ hx)))
      ⟨by decide, notab_dotBracket db hdb, trivial⟩⟩

/-- non-vacuity: the three-line form with tabs and blanks, also before the line feeds -/
example : parseDoc pil_env pil_grammar "complex\tc = \n\ta  b*\t\n (.)\n" =
    some [.grp [.tok "strand-complex", .tok "c", .grp [.tok "a", .tok "b*"], .tok "(.)"]] := by
  have sep : ∀ w : List Char, (∀ c ∈ w, c = ' ' ∨ c = '\t') → IsSep w := fun w h => h
  have h := stmt_tabs_rt _ _ (complex_layout ['c'] '=' (Or.inl rfl) ['a'] [['b', '*']] ['(', '.', ')']
    (ident_single 'c' (by decide))
    (by
      intro x hx
      simp only [List.mem_cons, List.not_mem_nil, or_false] at hx
      rcases hx with rfl | rfl
      · exact ⟨['a'], false, rfl, ident_single 'a' (by decide)⟩
      · exact ⟨['b'], true, rfl, ident_single 'b' (by decide)⟩)
    ⟨by simp, by decide⟩
    [['\t'], [' '], [' '], ['\t'], [' ', ' '], ['\t'], [' ']]
    ⟨sep _ (by decide), by simp, sep _ (by decide), by simp, sep _ (by decide), by simp, sep _ (by decide), by simp,
      sep _ (by decide), by simp, sep _ (by decide), by simp, sep _ (by decide), by simp, rfl⟩)
  exact parse_of_text _ _ _ _ _ h (by decide +kernel)

end Dsd.C13
