import DsdVerif.Props.C13GapsCplx

namespace Dsd.C13
open Dsd Dsd.PP Dsd.Gen Dsd.PP.Tabs
open Dsd.Pil (StmtText StmtTextL StmtTextT Tail NbTail eolG Num)

/-! C13, "arbitrary spaces and tabs at every token boundary", concluded: kernel complexes (with an optional
concentration in any number form) and the domain statements. -/

/-! ### kernel complexes -/

/-- the optional concentration `@ mode value unit` -/
def concPieces : Option (List Char × Num × List Char) → List Piece
  | none => []
  | some (mode, v, unit) =>
    [.sep false, .tok ['@'], .sep false, .tok mode, .sep false, .tok v.text, .sep false, .tok unit]

def concTree : Option (List Char × Num × List Char) → List Tree
  | none => []
  | some (mode, v, unit) => [.grp [tokOf mode, tokOf v.text, tokOf unit]]

def concOK : Option (List Char × Num × List Char) → Prop
  | none => True
  | some (mode, v, unit) => Pil.IsMode mode ∧ v.OK ∧ Pil.IsCunit unit

/-- the words of the kernel string of `(seq, sst)`: `name`, `name(`, `)`, `+` -/
def kernelWords (seq : List String) (sst : List Char) : List (List Char) := (seq.zip sst).map Pil.word

/-- every token boundary of `name = w1 w2 … (@ mode value unit)`: a separator is mandatory before `=` (the name
    is followed by it) and before every word of the pattern; around the tokens of the concentration it is optional.
    The words `a*`, `a(`, the number and the unit are single tokens. -/
def kernelTmpl (name : List Char) (seq : List String) (sst : List Char)
    (conc : Option (List Char × Num × List Char)) : List Piece :=
  [.tok name, .sep true, .tok ['=']] ++
    ((kernelWords seq sst).flatMap (fun w => [Piece.sep true, Piece.tok w]) ++ (concPieces conc ++ [.sep false]))

theorem spDomsW_words (L : List Pil.Ent) (cs : List Nat) :
    Pil.spDomsW ((L.map Pil.word).zip cs) = Pil.spW (L.zip cs) := by
  induction L generalizing cs with
  | nil => simp [Pil.spDomsW, Pil.spW]
  | cons e R ih =>
    cases cs with
    | nil => simp [Pil.spDomsW, Pil.spW]
    | cons c cs =>
      simp only [List.map_cons, List.zip_cons_cons, Pil.spDomsW_cons, Pil.spW_cons, ih]

theorem notab_mode (mode : List Char) (h : Pil.IsMode mode) : '\t' ∉ mode := by
  rcases h with rfl | rfl | rfl | rfl <;> decide

theorem notab_cunit (u : List Char) (h : Pil.IsCunit u) : '\t' ∉ u := by
  rcases h with rfl | rfl | rfl | rfl | rfl <;> decide

theorem toksOK_conc (conc : Option (List Char × Num × List Char)) (h : concOK conc) (tl : List Piece)
    (htl : ToksOK tl) : ToksOK (concPieces conc ++ tl) := by
  cases conc with
  | none => exact htl
  | some q =>
    obtain ⟨mode, v, unit⟩ := q
    exact ⟨by decide, notab_mode mode h.1, notab_num v h.2.1, notab_cunit unit h.2.2, htl⟩

theorem kernel_blanks (name : List Char) (seq : List String) (sst : List Char) (toks : List Tree)
    (conc : Option (List Char × Num × List Char))
    (hn : Ident name) (hl : LegalNames seq sst) (hne : sst ≠ []) (ht : kernelTokens seq sst = some toks)
    (hc : concOK conc) (ks : List Nat) (hk : CountsOK (kernelTmpl name seq sst conc) ks) :
    StmtTextB (render (kernelTmpl name seq sst conc) ks)
      (.grp ([.tok "kernel-complex", tokOf name, .grp toks] ++ concTree conc)) := by
  obtain ⟨nc, m, rfl, hnc, hm, hL, _, hp, _⟩ := kernel_prep name seq sst toks hn hl hne ht []
  have hleg := legalEnt_zip seq sst hl
  have hwt : ∀ w ∈ kernelWords seq sst, '\t' ∉ w := by
    intro w hw
    obtain ⟨e, he, rfl⟩ := List.mem_map.mp hw
    exact (Pil.word_facts e (hleg e he)).2
  have htok : ToksOK (kernelTmpl (nc :: m) seq sst conc) :=
    ⟨notab_cons nc m hnc hm, by decide, toksOK_sepToks _ _ hwt (toksOK_conc conc hc _ trivial)⟩
  unfold kernelTmpl at hk
  rcases ks with _ | ⟨c1, ks⟩ <;> simp [CountsOK] at hk
  obtain ⟨h1', hrest⟩ := hk
  obtain ⟨a, rfl⟩ : ∃ a, c1 = a + 1 := ⟨c1 - 1, by omega⟩
  obtain ⟨cs, ks', hlc, htl, hr⟩ := Pil.render_sepToks (kernelWords seq sst) _ ks hrest
  have hlc' : cs.length = (seq.zip sst).length := by rw [hlc]; simp [kernelWords]
  rw [show kernelWords seq sst = (seq.zip sst).map Pil.word from rfl, spDomsW_words] at hr
  -- the decorated description
  have hmap : ((seq.zip sst).zip cs).map (·.1) = seq.zip sst := List.map_fst_zip (by rw [hlc']; exact Nat.le_refl _)
  have hLW : (seq.zip sst).zip cs ≠ [] := by
    intro e; rw [e] at hmap; exact hL hmap.symm
  have hlenW : ((seq.zip sst).zip cs).length = (seq.zip sst).length := by
    have := congrArg List.length hmap
    rw [List.length_map] at this
    exact this
  have hlegW : ∀ e ∈ (seq.zip sst).zip cs, Pil.LegalEnt e.1 := by
    intro e he
    apply hleg
    rw [← hmap]
    exact List.mem_map_of_mem he
  have hpW : Pil.pItems (2 * ((seq.zip sst).zip cs).length + 1) (((seq.zip sst).zip cs).map (·.1)) = some (toks, []) := by
    rw [hmap, hlenW]; exact hp
  obtain ⟨f1, _⟩ := Pil.spW_facts _ hlegW
  cases conc with
  | none =>
    simp only [concPieces, List.nil_append] at htl hr
    rcases ks' with _ | ⟨e, _ | ⟨e2, ks''⟩⟩ <;> simp [CountsOK] at htl
    have htext : ∀ Y, render (kernelTmpl (nc :: m) seq sst none) ((a + 1) :: ks) ++ Y =
        Pil.kernelTextW nc m a ((seq.zip sst).zip cs) (List.replicate e ' ' ++ Y) := by
      intro Y
      unfold kernelTmpl
      simp only [concPieces, List.nil_append, List.cons_append, render]
      rw [show kernelWords seq sst = (seq.zip sst).map Pil.word from rfl, hr]
      simp [Pil.kernelTextW, render, List.append_assoc]
    refine stmtTextB_of_render' _ _ _ nc m _ rfl (startCh_ident nc hnc) htok (8 * ((seq.zip sst).zip cs).length + 70)
      ?_ ?_
    · have := congrArg List.length (htext [])
      simp only [List.append_nil, Pil.kernelTextW, List.length_cons, List.length_append] at this
      omega
    · intro X NE p hX heol
      rw [htext X]
      exact Pil.kernel_stmt_tailW nc m a _ toks _ NE p hnc hm hLW hlegW hpW (hX.blanks e)
        (Pil.Ok_eol_blanks e heol)
  | some q =>
    obtain ⟨mode, v, unit⟩ := q
    obtain ⟨hmode, hv, hu⟩ := hc
    simp only [concPieces, List.cons_append, List.nil_append] at htl hr
    rcases ks' with _ | ⟨g0, _ | ⟨g1, _ | ⟨g2, _ | ⟨g3, _ | ⟨e, _ | ⟨e2, ks''⟩⟩⟩⟩⟩⟩ <;> simp [CountsOK] at htl
    have htext : ∀ Y, render (kernelTmpl (nc :: m) seq sst (some (mode, v, unit))) ((a + 1) :: ks) ++ Y =
        Pil.kernelTextW nc m a ((seq.zip sst).zip cs)
          (Pil.concTextW g0 mode g1 g2 v g3 unit (List.replicate e ' ' ++ Y)) := by
      intro Y
      unfold kernelTmpl
      simp only [concPieces, List.nil_append, List.cons_append, render]
      rw [show kernelWords seq sst = (seq.zip sst).map Pil.word from rfl, hr]
      simp [Pil.kernelTextW, Pil.concTextW, render, List.append_assoc]
    refine stmtTextB_of_render' _ _ _ nc m _ rfl (startCh_ident nc hnc) htok (8 * ((seq.zip sst).zip cs).length + 80)
      ?_ ?_
    · have := congrArg List.length (htext [])
      simp only [List.append_nil, Pil.kernelTextW, List.length_cons, List.length_append] at this
      omega
    · intro X NE p hX heol
      rw [htext X]
      exact Pil.kernel_concW_stmt_tail nc m a _ toks g0 mode g1 g2 v g3 unit _ NE p hnc hm hLW
        hlegW hpW hmode hv hu (Pil.Ok_eol_blanks e heol)

/-- **kernel complexes: arbitrary blanks and tabs at every token boundary** — before `=`, before every word of the
    pattern, and between the tokens of the optional concentration (`@ mode value unit`, the value in integer,
    decimal or scientific form) -/
theorem kernel_layout (name : List Char) (seq : List String) (sst : List Char) (toks : List Tree)
    (conc : Option (List Char × Num × List Char))
    (hn : Ident name) (hl : LegalNames seq sst) (hne : sst ≠ []) (ht : kernelTokens seq sst = some toks)
    (hc : concOK conc) (gaps : List (List Char)) (hg : SepsOK (kernelTmpl name seq sst conc) gaps) :
    StmtTextT (renderW (kernelTmpl name seq sst conc) gaps)
      (.grp ([.tok "kernel-complex", tokOf name, .grp toks] ++ concTree conc)) := by
  have hleg := legalEnt_zip seq sst hl
  have hwt : ∀ w ∈ kernelWords seq sst, '\t' ∉ w := by
    intro w hw
    obtain ⟨e, he, rfl⟩ := List.mem_map.mp hw
    exact (Pil.word_facts e (hleg e he)).2
  refine stmtTextT_of_template _ ?_ _
    (fun ks hk => (kernel_blanks name seq sst toks conc hn hl hne ht hc ks hk).toL) gaps hg
  exact ⟨Pil.notab_ident name hn.2, by decide, toksOK_sepToks _ _ hwt (toksOK_conc conc hc _ trivial)⟩

/-- the restriction is real: the unit is one token -/
example : parseDoc pil_env pil_grammar "X = a @initial 5 n M\n" = none := by rfl

/-- `1.5e-3` -/
def n1_5em3 : Num := ⟨['1'], some ['5'], some (some '-', ['3'])⟩

theorem n1_5em3_ok : n1_5em3.OK := by
  refine ⟨dig_of _ (by decide) (by decide), ?_, ?_⟩
  · intro f hf
    simp only [n1_5em3, Option.some.injEq] at hf
    subst hf
    exact dig_of _ (by decide) (by decide)
  · intro sg d h
    simp only [n1_5em3, Option.some.injEq, Prod.mk.injEq] at h
    obtain ⟨rfl, rfl⟩ := h
    exact ⟨dig_of _ (by decide) (by decide), by intro c hc; cases hc; exact Or.inl rfl⟩

/-- non-vacuity: tabs in the pattern and a concentration in scientific form; no blank before `@`, none after it -/
example : parseDoc pil_env pil_grammar "X\t=\ta(\tt\t)@constant\t1.5e-3 uM\t\n" =
    some [.grp [.tok "kernel-complex", .tok "X", .grp [.tok "a", .grp [.tok "t"]],
      .grp [.tok "constant", .tok "1.5e-3", .tok "uM"]]] := by
  have sep : ∀ w : List Char, (∀ c ∈ w, c = ' ' ∨ c = '\t') → IsSep w := fun w h => h
  have h := stmt_tabs_rt _ _ (kernel_layout ['X'] ["a", "t", "a"] ['(', '.', ')'] _
    (some ("constant".toList, n1_5em3, ['u', 'M']))
    (ident_single 'X' (by decide)) legal_ata (by decide) rfl
    ⟨Or.inr (Or.inr (Or.inl rfl)), n1_5em3_ok, Or.inr (Or.inr (Or.inl rfl))⟩
    [['\t'], ['\t'], ['\t'], ['\t'], [], [], ['\t'], [' '], ['\t']]
    ⟨sep _ (by decide), by simp, sep _ (by decide), by simp, sep _ (by decide), by simp, sep _ (by decide), by simp,
      sep _ (by decide), by simp, sep _ (by decide), by simp, sep _ (by decide), by simp, sep _ (by decide), by simp,
      sep _ (by decide), by simp, rfl⟩)
  exact parse_of_text _ _ _ _ _ h (by decide +kernel)

/-! ### domain statements -/

/-- every token boundary of `length name = value` (keywords `length`, `domain`, `sequence`); `name*` is one token -/
def dlTmpl (kw name : List Char) (st : Bool) (sign : Char) (v : List Char) : List Piece :=
  [.tok kw, .sep true, .tok (name ++ star st), .sep false, .tok [sign], .sep false, .tok v, .sep false]

/-- **domain-length statements: arbitrary blanks and tabs at every token boundary**; the value is a number, or
    `short` / `long` after the keywords `length` and `domain` -/
theorem dl_layout (kw name : List Char) (st : Bool) (sign : Char) (v : List Char) (hs : sign = '=' ∨ sign = ':')
    (hn : Ident name)
    (hv : ((kw = "length".toList ∨ kw = "domain".toList ∨ kw = "sequence".toList) ∧ Digits v) ∨
      ((kw = "length".toList ∨ kw = "domain".toList) ∧ (v = "short".toList ∨ v = "long".toList)))
    (gaps : List (List Char)) (hg : SepsOK (dlTmpl kw name st sign v) gaps) :
    StmtTextT (renderW (dlTmpl kw name st sign v) gaps)
      (.grp [.tok "dl-domain", .tok (String.ofList (name ++ star st)), .tok (String.ofList v)]) := by
  unfold dlTmpl at hg ⊢
  rcases gaps with _ | ⟨w1, _ | ⟨w2, _ | ⟨w3, _ | ⟨w4, _ | ⟨w5, ws⟩⟩⟩⟩⟩ <;> simp [SepsOK] at hg
  obtain ⟨h1, hne, h2, h3, h4⟩ := hg
  rcases hv with ⟨hkw, hd⟩ | ⟨hkw, hdt⟩
  · have := stmtTextT_dl_domain kw hkw name v st sign hs hn hd w1 w2 w3 w4 h1 hne h2 h3 h4
    simpa [renderW, List.append_assoc] using this
  · have := stmtTextT_dl_domain_dtype kw hkw name st v hdt sign hs hn w1 w2 w3 w4 h1 hne h2 h3 h4
    simpa [renderW, List.append_assoc] using this

/-- the optional second assignment `= length` of a sequence statement -/
def slLenPieces : Option (Char × List Char) → List Piece
  | none => []
  | some (s2, d) => [.sep false, .tok [s2], .sep false, .tok d]

def slLenTree : Option (Char × List Char) → List Tree
  | none => []
  | some (_, d) => [.tok (String.ofList d)]

def slLenOK : Option (Char × List Char) → Prop
  | none => True
  | some (s2, d) => (s2 = '=' ∨ s2 = ':') ∧ Digits d

/-- every token boundary of `sequence name = LETTERS (= length)` -/
def slTmpl (name : List Char) (st : Bool) (sign : Char) (con : List Char) (len : Option (Char × List Char)) :
    List Piece :=
  [.tok "sequence".toList, .sep true, .tok (name ++ star st), .sep false, .tok [sign], .sep false, .tok con] ++
    (slLenPieces len ++ [.sep false])

/-- **sequence statements: arbitrary blanks and tabs at every token boundary**, with and without the second
    assignment -/
theorem sl_layout (name : List Char) (st : Bool) (sign : Char) (con : List Char) (len : Option (Char × List Char))
    (hs : sign = '=' ∨ sign = ':') (hn : Ident name) (hc : Letters con) (hlen : slLenOK len)
    (gaps : List (List Char)) (hg : SepsOK (slTmpl name st sign con len) gaps) :
    StmtTextT (renderW (slTmpl name st sign con len) gaps)
      (.grp ([.tok "sl-domain", .tok (String.ofList (name ++ star st)), .tok (String.ofList con)] ++ slLenTree len)) := by
  unfold slTmpl at hg ⊢
  cases len with
  | none =>
    simp only [slLenPieces, List.nil_append, List.cons_append] at hg ⊢
    rcases gaps with _ | ⟨w1, _ | ⟨w2, _ | ⟨w3, _ | ⟨w4, _ | ⟨w5, ws⟩⟩⟩⟩⟩ <;> simp [SepsOK] at hg
    obtain ⟨h1, hne, h2, h3, h4⟩ := hg
    have := stmtTextT_sl_domain name con st sign hs hn hc w1 w2 w3 w4 h1 hne h2 h3 h4
    simpa [renderW, slLenTree, List.append_assoc] using this
  | some q =>
    obtain ⟨s2, d⟩ := q
    obtain ⟨hs2, hd⟩ := hlen
    simp only [slLenPieces, List.nil_append, List.cons_append] at hg ⊢
    rcases gaps with _ | ⟨w1, _ | ⟨w2, _ | ⟨w3, _ | ⟨w4, _ | ⟨w5, _ | ⟨w6, _ | ⟨w7, ws⟩⟩⟩⟩⟩⟩⟩ <;> simp [SepsOK] at hg
    obtain ⟨h1, hne, h2, h3, h4, h5, h6⟩ := hg
    have := stmtTextT_sl_domain_len name con d st sign s2 hs hs2 hn hc hd w1 w2 w3 w4 w5 w6 h1 hne h2 h3 h4 h5 h6
    simpa [renderW, slLenTree, List.append_assoc] using this

/-- the restrictions are real: `a *` (a gap inside the combined token `a*`) is rejected, and without a separator
    after the keyword the line is a kernel complex -/
example : parseDoc pil_env pil_grammar "length a * = 5\n" = none := by rfl
example : parseDoc pil_env pil_grammar "lengtha = 5\n" =
    some [.grp [.tok "kernel-complex", .tok "lengtha", .grp [.tok "5"]]] := by rfl

/-- non-vacuity: `sequence t* = ACGT : 4` with tabs -/
example : parseDoc pil_env pil_grammar "sequence\tt*=\tACGT\t:4 \n" =
    some [.grp [.tok "sl-domain", .tok "t*", .tok "ACGT", .tok "4"]] := by
  have sep : ∀ w : List Char, (∀ c ∈ w, c = ' ' ∨ c = '\t') → IsSep w := fun w h => h
  have h := stmt_tabs_rt _ _ (sl_layout ['t'] true '=' "ACGT".toList (some (':', ['4'])) (Or.inl rfl)
    (ident_single 't' (by decide)) ⟨by decide, by decide⟩ ⟨Or.inr rfl, by simp, by decide⟩
    [['\t'], [], ['\t'], ['\t'], [], [' ']]
    ⟨sep _ (by decide), by simp, sep _ (by decide), by simp, sep _ (by decide), by simp, sep _ (by decide), by simp,
      sep _ (by decide), by simp, sep _ (by decide), by simp, rfl⟩)
  exact parse_of_text _ _ _ _ _ h (by decide +kernel)

/-! ### overview

One summary theorem per statement kind — `dl_layout`, `sl_layout`, `strand_layout`, `state_layout`,
`kernel_layout`, `complex_layout`, `struct_layout`, `rx_plain_layout`, `rx_info_layout` — each of the form

    SepsOK (tmpl …) gaps → StmtTextT (renderW (tmpl …) gaps) tree

where `tmpl …` lists every token boundary of the statement.  With `document_tabs_rt` (Props/C13Tabs.lean) such
statements may be combined into documents in any line-level layout. -/

end Dsd.C13
