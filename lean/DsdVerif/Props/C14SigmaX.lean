/-
C14, end to end on the reader model — Stage 5b: kernel-notation complexes whose patterns use composite domains.

A pattern name that is a declared domain (or complement) stands for itself — **domain names take precedence** in the
reader: only when the request for a domain of that name is refused does the fallback loop look for a strand.  A name
that is a declared strand `s` stands for the strand's domains; a name whose complement name is a declared strand
(`s*`) stands for the complements of the strand's domains in reverse order.  The structure character of a composite
name is copied to every domain it stands for.
-/
import DsdVerif.Props.C14SigmaRxn
import DsdVerif.Lemmas.ReaderSigmaXKernelDoc

namespace Dsd.C14
open Dsd Dsd.PP Dsd.RState

theorem lower_S4 (sl : Slots) (ds : List Sig.Decl) (ss : List Sig.SDecl) (C : List Sig.CSpec)
    (conc : List (Nat × (String × String × String))) :
    Sig.Lower sl ds ss C (Sig.S4 sl.dom sl.strand sl.cplx ds ss C conc) (Sig.D4 ds ss C) :=
  { doms := rfl, strands := rfl, cplxs := rfl, cstate := rfl, dseq := rfl,
    ndom := fun i hi => Sig.nodes4_dom sl.dom sl.strand sl.cplx ds ss C i hi,
    nstrand := fun j p hj => Sig.nodes4_strand sl.dom sl.strand sl.cplx ds ss C j p hj,
    ncplx := fun j c hj => Sig.nodes4_cplx sl.dom sl.strand sl.cplx ds ss C j c hj,
    held := fun i hi => by
      show i ∈ List.range (Sig.base4 ds ss + C.length)
      exact List.mem_range.mpr hi,
    ddict := rfl, sdict := rfl, cdict := rfl }

theorem kConc_ge (b : Nat) (kds : List Sig.KDecl) : ∀ q ∈ Sig.kConc b kds, b ≤ q.1 := by
  intro q hq
  unfold Sig.kConc at hq
  rw [List.mem_filterMap] at hq
  obtain ⟨⟨k, j⟩, _, he⟩ := hq
  cases hc : k.conc with
  | none => simp [hc] at he
  | some t =>
    simp only [hc, Option.map_some, Option.some.injEq] at he
    rw [← he]; simp

/-- **Stage 5b (kernel patterns over composite domains).**  After a Stage-5 document come `kernel-complex` lines
    `xds` whose resolved pattern names are declared domain names (or complements) — which stand for themselves —,
    declared strand names `s`, or names `s*` whose complement name is a declared strand; composite names are not
    domain names, nor are their complement names (`Sig.XName`), and every such pattern uses at least one composite
    name (`Sig.XOK`; otherwise it is a Stage-5 line).  No domain is named "+".  The *expanded* descriptions
    (`k.xspec ds ss`: every composite name replaced by the strand's domain names, resp. the reversed complements;
    its structure character copied to each of them) are well-formed, all complex names are distinct and no complex is
    a rotation of an earlier one.  Then the read succeeds and every such complex is read as `CplxRead` says, for the
    expanded names and structure, with the given concentration. -/
theorem read_xkernels_sigma (sl : Slots) (hdom : sl.dom < 4) (hstr : sl.strand < 4) (hcx : sl.cplx < 4)
    (ds : List Sig.Decl) (ss : List Sig.SDecl) (cds : List Sig.CDecl) (kds : List Sig.KDecl)
    (h5 : Sys5 ds ss cds kds) (hplus : ∀ d ∈ ds, d.name ≠ "+") (xds : List Sig.KDecl)
    (hx : ∀ k ∈ xds, Sig.XOK ds ss k)
    (hdescr : ∀ k ∈ xds, C02.Descr (k.xspec ds ss).ns (k.xspec ds ss).sst)
    (hnames : ((allC ds ss cds kds ++ xds.map (Sig.KDecl.xspec ds ss)).map (·.name)).Nodup)
    (hnonrot : (allC ds ss cds kds ++ xds.map (Sig.KDecl.xspec ds ss)).Pairwise
      (fun a b => (b.ns, b.sst) ∉ C02.orbit (C02.nStrands a.ns) a.ns a.sst)) :
    ∃ s' d', ({} : RState).readDoc sl [] []
        (Sig.doc ds ++ (Sig.sdoc ss ++ (Sig.cdoc cds ++ (Sig.kdoc kds ++ Sig.kdoc xds)))) {} = (s', .ok d') ∧
      d'.domains.map (·.1) = ds.flatMap (fun d => [d.name, d.name ++ "*"]) ∧
      d'.strands.map (·.1) = ss.map (·.1) ∧
      d'.complexes.map (·.1) = cds.map (·.name) ++ kds.map (·.name) ++ xds.map (·.name) ∧
      (d'.complexes.map (·.1)).Nodup ∧
      d'.macrostates = [] ∧ d'.det = [] ∧ d'.con = [] ∧ d'.other = 0 ∧
      (∀ d ∈ ds, DeclRead sl s' d' d) ∧ (∀ p ∈ ss, StrandRead sl s' d' p) ∧
      (∀ c ∈ cds, CplxRead sl s' d' c.name (c.spec ds ss).ns c.sst) ∧
      (∀ k ∈ kds, CplxRead sl s' d' k.name k.ns k.sst) ∧
      (∀ k ∈ xds, CplxRead sl s' d' k.name (k.xspec ds ss).ns (k.xspec ds ss).sst ∧
        ∃ id, d'.complexes.lookup k.name = some id ∧ s'.conc.lookup id = k.conc) := by
  obtain ⟨hcs, hks, hf⟩ := h5.parts
  have hxs : Sig.XSys ds ss (allC ds ss cds kds) xds := by
    refine ⟨hx, ?_, hnames, hnonrot⟩
    intro c hc
    rw [List.mem_append] at hc
    rcases hc with hc | hc
    · exact hf.descr c hc
    · obtain ⟨k, hk, rfl⟩ := List.mem_map.mp hc
      exact (C02.descr_iff _ _).mp (hdescr k hk)
  have hread := Sig.readDoc_fresh5x sl hdom hstr hcx ds h5.sys ss h5.ssys cds hcs kds hks xds hxs []
  simp only [List.append_nil, readDoc] at hread
  have hallnm : (allC ds ss cds kds ++ xds.map (Sig.KDecl.xspec ds ss)).map (·.name) =
      cds.map (·.name) ++ kds.map (·.name) ++ xds.map (·.name) := by
    unfold allC
    rw [List.map_append, List.map_append, List.map_map, List.map_map, List.map_map]; rfl
  have hl := lower_S4 sl ds ss (allC ds ss cds kds ++ xds.map (Sig.KDecl.xspec ds ss))
    (Sig.kConc (Sig.base4 ds ss + cds.length) kds ++ Sig.kConc (Sig.base4 ds ss + (cds.length + kds.length)) xds)
  refine ⟨_, _, hread, Sig.dDict_keys ds, Sig.sDict_keys ds ss, ?_, ?_, rfl, rfl, rfl, rfl,
    fun d hd => declRead_of sl hdom ds h5.sys ss _ _ _ hl d hd,
    fun p hp => strandRead_of sl hstr ds h5.sys ss h5.ssys _ _ _ hl p hp, ?_, ?_, ?_⟩
  · show (Sig.cDict _ _).map (·.1) = _
    rw [Sig.cDict_keys]; exact hallnm
  · show ((Sig.cDict _ _).map (·.1)).Nodup
    rw [Sig.cDict_keys]; exact hnames
  · intro c hc
    have hm : c.spec ds ss ∈ allC ds ss cds kds := List.mem_append_left _ (List.mem_map_of_mem hc)
    exact cplxRead_of sl hcx ds ss _ hnames _ _ hl (c.spec ds ss) (List.mem_append_left _ hm) (hf.descr _ hm)
      (Sig.scplx_children ds h5.sys ss h5.ssys c (h5.strands c hc).2)
  · intro k hk
    have hm : k.spec ds ∈ allC ds ss cds kds := List.mem_append_right _ (List.mem_map_of_mem hk)
    exact cplxRead_of sl hcx ds ss _ hnames _ _ hl (k.spec ds) (List.mem_append_left _ hm) (hf.descr _ hm)
      (Sig.kseq_children ds h5.sys k.ns (hks.doms k hk))
  · intro k hk
    have hm : k.xspec ds ss ∈ allC ds ss cds kds ++ xds.map (Sig.KDecl.xspec ds ss) :=
      List.mem_append_right _ (List.mem_map_of_mem hk)
    refine ⟨cplxRead_of sl hcx ds ss _ hnames _ _ hl (k.xspec ds ss) hm (hxs.descr _ hm) ?_, ?_⟩
    · exact Sig.expSeq_children (fun n => (Sig.dDict ds).lookup n) (Sig.resolveId ds) (Sig.xN ds ss) k.ns k.sst
        (fun n hn hne => Sig.xN_facts ds h5.sys hplus ss h5.ssys n ((hx k hk).names n hn hne))
    · obtain ⟨j, hj⟩ := List.getElem?_of_mem hk
      have hlen : (allC ds ss cds kds).length = cds.length + kds.length := by simp [allC]
      have hj' : (allC ds ss cds kds ++ xds.map (Sig.KDecl.xspec ds ss))[cds.length + kds.length + j]? =
          some (k.xspec ds ss) := by
        rw [List.getElem?_append_right (by omega)]
        simp [hlen, hj]
      refine ⟨_, Sig.cDict_lookup _ _ hnames _ _ hj', ?_⟩
      show (Sig.kConc (Sig.base4 ds ss + cds.length) kds ++
        Sig.kConc (Sig.base4 ds ss + (cds.length + kds.length)) xds).lookup _ = _
      rw [List.lookup_append]
      have hnone : (Sig.kConc (Sig.base4 ds ss + cds.length) kds).lookup
          (Sig.base4 ds ss + (cds.length + kds.length + j)) = none := by
        apply Sig.lookup_none_of
        intro q hq e
        have := Sig.kConc_lt _ kds q hq
        omega
      rw [hnone]
      have := Sig.kConc_lookup (Sig.base4 ds ss + (cds.length + kds.length)) xds j k hj
      have e : Sig.base4 ds ss + (cds.length + kds.length + j) = Sig.base4 ds ss + (cds.length + kds.length) + j := by
        omega
      rw [e, this]; rfl

/-! ### non-vacuity of Stage 5b -/

/-- `x1 = s( + )`: the strand `s = a b`, a break, and (synthesised by the kernel reader) `s*` -/
def exXds : List Sig.KDecl :=
  [{ name := "x1", pat := [.tok "s", .grp [.tok "+"]], ns := ["s", "+", "s*"], sst := ['(', '+', ')'], conc := none }]

theorem ex_sys5' : Sys5 exDs exSs [] exKds := by
  refine ⟨exDs_sys, exSs_sys, by decide, by decide, by decide, ?_, by decide, by decide⟩
  intro c hc
  simp only [exKds, List.map_cons, List.map_nil, List.nil_append, List.mem_cons, List.not_mem_nil, or_false] at hc
  rcases hc with rfl | rfl
  · exact ex_descr3
  · exact ex_descr4

theorem ex_xspec : (exXds.map (Sig.KDecl.xspec exDs exSs)).map (fun c => (c.ns, c.sst, c.seq)) =
    [(["a", "b", "+", "b*", "a*"], ['(', '(', '+', ')', ')'], [some 0, some 2, none, some 3, some 1])] := by
  decide

/-- the hypotheses of `read_xkernels_sigma` hold for `x1` over the strands `s = a b`, `t = b* a*` … -/
example : (∀ d ∈ exDs, d.name ≠ "+") ∧ (∀ k ∈ exXds, Sig.XOK exDs exSs k) ∧
    (∀ k ∈ exXds, C02.Descr (k.xspec exDs exSs).ns (k.xspec exDs exSs).sst) ∧
    ((allC exDs exSs [] exKds ++ exXds.map (Sig.KDecl.xspec exDs exSs)).map (·.name)).Nodup ∧
    (allC exDs exSs [] exKds ++ exXds.map (Sig.KDecl.xspec exDs exSs)).Pairwise
      (fun a b => (b.ns, b.sst) ∉ C02.orbit (C02.nStrands a.ns) a.ns a.sst) := by
  refine ⟨by decide, ?_, ?_, by decide, by decide⟩
  · intro k hk
    simp only [exXds, List.mem_singleton] at hk
    subst hk
    refine ⟨by decide, rfl, ?_, ⟨"s", by decide, by decide, by decide⟩⟩
    intro n hn hne
    simp only [List.mem_cons, List.not_mem_nil, or_false] at hn
    rcases hn with rfl | rfl | rfl
    · right; exact ⟨by decide, by decide, by decide, Or.inl (by decide)⟩
    · exact absurd rfl hne
    · right; exact ⟨by decide, by decide, by decide, Or.inr ⟨by decide, by decide⟩⟩
  · intro k hk
    simp only [exXds, List.mem_singleton] at hk
    subst hk
    have h1 : (Sig.KDecl.xspec exDs exSs
        { name := "x1", pat := [.tok "s", .grp [.tok "+"]], ns := ["s", "+", "s*"], sst := ['(', '+', ')'],
          conc := none }).ns = ["a", "b", "+", "b*", "a*"] := by decide
    have h2 : (Sig.KDecl.xspec exDs exSs
        { name := "x1", pat := [.tok "s", .grp [.tok "+"]], ns := ["s", "+", "s*"], sst := ['(', '+', ')'],
          conc := none }).sst = ['(', '(', '+', ')', ')'] := by decide
    rw [h1, h2]; exact ex_descr1

/-- … and the model expands `s( + )` to `a b + b* a*` with structure `((+))` and the domain singletons as children
    (checked by evaluation) -/
example :
    (match ({} : RState).readDoc {} [] []
        (Sig.doc exDs ++ (Sig.sdoc exSs ++ (Sig.cdoc [] ++ (Sig.kdoc exKds ++ Sig.kdoc exXds)))) {} with
     | (s', .ok d') => (d'.complexes, (s'.w.node 8).map (·.children),
         (s'.w.cstate.lookup 8).map (fun st => (st.seq, st.sst)))
     | (_, .error _) => ([], none, none)) =
    ([("k1", 6), ("k2", 7), ("x1", 8)], some [0, 2, 3, 1],
      some (["a", "b", "+", "b*", "a*"], ['(', '(', '+', ')', ')'])) := by
  rfl

end Dsd.C14
