import DsdVerif.Props.C19More
import DsdVerif.Lemmas.PPSswDoc
import DsdVerif.Lemmas.PPSswStmts

namespace Dsd.C19
open Dsd.PP Dsd.Gen Dsd.PP.Ssw

/-! C19, "documents parse as the concatenation of their statements", for documents of any number of statements of
any kinds.  `Ssw.StmtText s t` (Lemmas/PPSswDoc.lean): `s` is the text of one statement without its line end — it
starts with a character that is neither blank, `#` nor a line feed, contains no tab, and the statement alternatives
parse it to the tokens of `t = .grp ts` in front of ANY continuation, within `3 * s.length + 30` steps. -/

/-- a statement text, its tree, and the number of blank lines that follow its line end -/
abbrev Stmt := List Char × Tree × Nat

/-- the text of the statements: each one, its line end, and its blank lines -/
def stmtsText (stmts : List Stmt) : List Char := stmts.flatMap (fun x => x.1 ++ '\n' :: List.replicate x.2.2 '\n')

theorem stmtsText_eq (stmts : List Stmt) : stmtsText stmts = Ssw.itemsText stmts := rfl

/-- **documents parse as the concatenation of their statements**: any number `≥ 1` of statements of any kinds, each
    followed by its line end and any number of blank lines -/
theorem document_rt (stmts : List Stmt) (hne : stmts ≠ []) (h : ∀ x ∈ stmts, StmtText x.1 x.2.1) :
    parseDoc ssw_env ssw_grammar
      (String.ofList (stmts.flatMap (fun x => x.1 ++ '\n' :: List.replicate x.2.2 '\n'))) =
    some (stmts.map (fun x => x.2.1)) := by
  exact Ssw.document_parse 0 stmts hne h

/-- … after any number of leading blank lines -/
theorem document_leading_rt (k0 : Nat) (stmts : List Stmt) (hne : stmts ≠ []) (h : ∀ x ∈ stmts, StmtText x.1 x.2.1) :
    parseDoc ssw_env ssw_grammar (String.ofList (List.replicate k0 '\n' ++ stmtsText stmts)) =
    some (stmts.map (fun x => x.2.1)) :=
  Ssw.document_parse k0 stmts hne h

/-- … and with a last statement whose line end is missing (the end of the input closes it) -/
theorem document_open_rt (k0 : Nat) (stmts : List Stmt) (h : ∀ x ∈ stmts, StmtText x.1 x.2.1)
    (s : List Char) (t : Tree) (hs : StmtText s t) :
    parseDoc ssw_env ssw_grammar (String.ofList (List.replicate k0 '\n' ++ (stmtsText stmts ++ s))) =
    some (stmts.map (fun x => x.2.1) ++ [t]) :=
  Ssw.document_parse_open k0 stmts h s t hs

/-! ### every statement kind is a `StmtText` -/

theorem startCh (c : Char) (h1 : isWs c = false) (h2 : c ≠ '#') (h3 : c ≠ '\n') : StartCh c := ⟨h1, h2, h3⟩

theorem stmtText_reporter (a b : List Char) (ha : Digits a) (hb : Digits b) (k : Nat) :
    StmtText ("reporter[".toList ++ a ++ [','] ++ blanks k ++ b ++ [']'])
      (.grp [.tok "reporter", .grp [tokOf a, tokOf b]]) := by
  have hat := notab_digits ha; have hbt := notab_digits hb
  exact StmtText.of _ _ 30 'r'
    (fun rest => 'r' :: 'e' :: 'p' :: 'o' :: 'r' :: 't' :: 'e' :: 'r' :: '[' :: (a ++ ',' :: (bl k ++ (b ++ ']' :: rest))))
    (by simp) (startCh _ (by decide) (by decide) (by decide)) (by simp [blanks, hat, hbt]) (by omega)
    (by intro rest; simp [blanks]) (fun rest => reporter_ev_rest a b ha hb k rest)

theorem stmtText_input (n a b : List Char) (hn : Digits n) (ha : Digits a) (hb : Digits b) (k1 k2 k3 : Nat) :
    StmtText ("INPUT(".toList ++ n ++ [')'] ++ blanks k1 ++ ['='] ++ blanks k2 ++ renderWire a b k3)
      (.grp [.tok "INPUT", .grp [tokOf n], wireTree a b]) := by
  have hnt := notab_digits hn; have hat := notab_digits ha; have hbt := notab_digits hb
  exact StmtText.of _ _ 30 'I'
    (fun rest => 'I' :: 'N' :: 'P' :: 'U' :: 'T' :: '(' :: (n ++ ')' :: (bl k1 ++ '=' :: (bl k2 ++
      ('w' :: '[' :: (a ++ ',' :: (bl k3 ++ (b ++ ']' :: rest))))))))
    (by simp) (startCh _ (by decide) (by decide) (by decide)) (by simp [blanks, renderWire, hnt, hat, hbt]) (by omega)
    (by intro rest; simp [blanks, renderWire])
    (fun rest => inp_rest n (ev_name_number n hn) k1 _ rest _ (ev_wire k2 k3 a b ha hb rest))

theorem stmtText_input_ident (n a b : List Char) (hn : SIdent n) (ha : Digits a) (hb : Digits b) (k1 k2 k3 : Nat) :
    StmtText ("INPUT(".toList ++ n ++ [')'] ++ blanks k1 ++ ['='] ++ blanks k2 ++ renderWire a b k3)
      (.grp [.tok "INPUT", .grp [tokOf n], wireTree a b]) := by
  have hnt := notab_ident hn; have hat := notab_digits ha; have hbt := notab_digits hb
  exact StmtText.of _ _ 30 'I'
    (fun rest => 'I' :: 'N' :: 'P' :: 'U' :: 'T' :: '(' :: (n ++ ')' :: (bl k1 ++ '=' :: (bl k2 ++
      ('w' :: '[' :: (a ++ ',' :: (bl k3 ++ (b ++ ']' :: rest))))))))
    (by simp) (startCh _ (by decide) (by decide) (by decide)) (by simp [blanks, renderWire, hnt, hat, hbt]) (by omega)
    (by intro rest; simp [blanks, renderWire])
    (fun rest => inp_rest n (ev_name_ident n hn) k1 _ rest _ (ev_wire k2 k3 a b ha hb rest))

theorem stmtText_input_wire_f (n a : List Char) (hn : Digits n) (ha : Digits a) :
    StmtText ("INPUT(".toList ++ n ++ ") = w[".toList ++ a ++ ", f]".toList)
      (.grp [.tok "INPUT", .grp [tokOf n], .grp [.tok "w", .grp [tokOf a, .tok "f"]]]) := by
  have hnt := notab_digits hn; have hat := notab_digits ha
  exact StmtText.of _ _ 30 'I'
    (fun rest => 'I' :: 'N' :: 'P' :: 'U' :: 'T' :: '(' :: (n ++ ')' :: (bl 1 ++ '=' :: (bl 1 ++
      ('w' :: '[' :: (a ++ ',' :: (bl 1 ++ 'f' :: ']' :: rest)))))))
    (by simp) (startCh _ (by decide) (by decide) (by decide)) (by simp [hnt, hat]) (by omega)
    (by intro rest; simp)
    (fun rest => inp_rest n (ev_name_number n hn) 1 _ rest _ (ev_wire_f 1 1 a ha rest))

theorem stmtText_output_fluor (n f : List Char) (hn : Digits n) (hf : Digits f) (k1 k2 : Nat) :
    StmtText ("OUTPUT(".toList ++ n ++ [')'] ++ blanks k1 ++ ['='] ++ blanks k2 ++ "Fluor[".toList ++ f ++ [']'])
      (.grp [.tok "OUTPUT", .grp [tokOf n], .grp [.tok "Fluor", tokOf f]]) := by
  have hnt := notab_digits hn; have hft := notab_digits hf
  exact StmtText.of _ _ 40 'O'
    (fun rest => 'O' :: 'U' :: 'T' :: 'P' :: 'U' :: 'T' :: '(' :: (n ++ ')' :: (bl k1 ++ '=' :: (bl k2 ++
      ('F' :: 'l' :: 'u' :: 'o' :: 'r' :: '[' :: (f ++ ']' :: rest))))))
    (by simp) (startCh _ (by decide) (by decide) (by decide)) (by simp [blanks, hnt, hft])
    (by have : ("OUTPUT(".toList).length = 7 := rfl
        simp only [List.length_append, this]; omega)
    (by intro rest; simp [blanks])
    (fun rest => out_rest n (ev_name_number n hn) k1 _ rest _ (ev_outval_fluor k2 f hf rest))

theorem stmtText_output_wire (n a b : List Char) (hn : Digits n) (ha : Digits a) (hb : Digits b) (k1 k2 k3 : Nat) :
    StmtText ("OUTPUT(".toList ++ n ++ [')'] ++ blanks k1 ++ ['='] ++ blanks k2 ++ renderWire a b k3)
      (.grp [.tok "OUTPUT", .grp [tokOf n], wireTree a b]) := by
  have hnt := notab_digits hn; have hat := notab_digits ha; have hbt := notab_digits hb
  exact StmtText.of _ _ 40 'O'
    (fun rest => 'O' :: 'U' :: 'T' :: 'P' :: 'U' :: 'T' :: '(' :: (n ++ ')' :: (bl k1 ++ '=' :: (bl k2 ++
      ('w' :: '[' :: (a ++ ',' :: (bl k3 ++ (b ++ ']' :: rest))))))))
    (by simp) (startCh _ (by decide) (by decide) (by decide)) (by simp [blanks, renderWire, hnt, hat, hbt])
    (by have : ("OUTPUT(".toList).length = 7 := rfl
        simp only [List.length_append, this]; omega)
    (by intro rest; simp [blanks, renderWire])
    (fun rest => out_rest n (ev_name_number n hn) k1 _ rest _ (ev_outval_wire k2 k3 a b ha hb rest))

theorem stmtText_seesaw (n : List Char) (ins outs : List (List Char)) (hn : Digits n)
    (hi : ins ≠ [] ∧ ∀ x ∈ ins, Digits x) (ho : outs ≠ [] ∧ ∀ x ∈ outs, Digits x) :
    StmtText ("seesaw[".toList ++ n ++ ", ".toList ++ braces ins ++ ", ".toList ++ braces outs ++ [']'])
      (.grp [.tok "seesaw", .grp [tokOf n, .grp (ins.map tokOf), .grp (outs.map tokOf)]]) := by
  obtain ⟨i0, is, rfl, hi0, his⟩ := split_digits hi
  obtain ⟨o0, os, rfl, ho0, hos⟩ := split_digits ho
  have hnt := notab_digits hn; have hi0t := notab_digits hi0; have ho0t := notab_digits ho0
  have hist := notab_tailR is his; have host := notab_tailR os hos
  have hl1 := length_le_tailR is; have hl2 := length_le_tailR os
  exact StmtText.of _ _ (is.length + os.length + 40) 's'
    (fun rest => 's' :: 'e' :: 'e' :: 's' :: 'a' :: 'w' :: '[' ::
        (n ++ ',' :: (bl 1 ++ '{' :: (i0 ++ (tailR is ++ '}' :: ',' :: (bl 1 ++ '{' :: (o0 ++ (tailR os ++
          '}' :: ']' :: rest))))))))
    (by simp) (startCh _ (by decide) (by decide) (by decide))
    (by simp [braces, renderList_cons, hnt, hi0t, ho0t, hist, host])
    (by have : ("seesaw[".toList).length = 7 := rfl
        simp only [braces, renderList_cons, List.length_append, List.length_cons, this]; omega)
    (by intro rest; simp [braces, renderList_cons])
    (fun rest => seesaw_rest n i0 o0 is os hn hi0 ho0 his hos 1 1 rest)

theorem stmtText_inputfanout (a b : List Char) (xs : List (List Char)) (ha : Digits a) (hb : Digits b)
    (hxs : xs ≠ [] ∧ ∀ x ∈ xs, Digits x) :
    StmtText ("inputfanout[".toList ++ a ++ ", ".toList ++ b ++ ", ".toList ++ braces xs ++ [']'])
      (.grp [.tok "inputfanout", .grp [tokOf a, tokOf b, .grp (xs.map tokOf)]]) := by
  obtain ⟨x0, xs, rfl, hx0, hxs'⟩ := split_digits hxs
  have hat := notab_digits ha; have hbt := notab_digits hb; have h0t := notab_digits hx0
  have hxt := notab_tailR xs hxs'
  have hl := length_le_tailR xs
  exact StmtText.of _ _ (xs.length + 40) 'i'
    (fun rest => 'i' :: 'n' :: 'p' :: 'u' :: 't' :: 'f' :: 'a' :: 'n' :: 'o' :: 'u' :: 't' :: '[' ::
        (a ++ ',' :: (bl 1 ++ (b ++ ',' :: (bl 1 ++ '{' :: (x0 ++ (tailR xs ++ '}' :: ']' :: rest)))))))
    (by simp) (startCh _ (by decide) (by decide) (by decide))
    (by simp [braces, renderList_cons, hat, hbt, h0t, hxt])
    (by have : ("inputfanout[".toList).length = 12 := rfl
        simp only [braces, renderList_cons, List.length_append, List.length_cons, this]; omega)
    (by intro rest; simp [braces, renderList_cons])
    (fun rest => inputfanout_rest a b x0 xs ha hb hx0 hxs' 1 1 rest)

theorem stmtText_seesawOR (a b : List Char) (xs ys : List (List Char)) (ha : Digits a) (hb : Digits b)
    (hx : xs ≠ [] ∧ ∀ x ∈ xs, Digits x) (hy : ys ≠ [] ∧ ∀ y ∈ ys, Digits y) :
    StmtText ("seesawOR[".toList ++ a ++ ", ".toList ++ b ++ ", ".toList ++ braces xs ++ ", ".toList ++ braces ys ++ [']'])
      (.grp [.tok "seesawOR", .grp [tokOf a, tokOf b, .grp (xs.map tokOf), .grp (ys.map tokOf)]]) := by
  obtain ⟨x0, xs, rfl, hx0, hxs⟩ := split_digits hx
  obtain ⟨y0, ys, rfl, hy0, hys⟩ := split_digits hy
  have hat := notab_digits ha; have hbt := notab_digits hb
  have hx0t := notab_digits hx0; have hy0t := notab_digits hy0
  have hxt := notab_tailR xs hxs; have hyt := notab_tailR ys hys
  have hl1 := length_le_tailR xs; have hl2 := length_le_tailR ys
  exact StmtText.of _ _ (xs.length + ys.length + 60) 's'
    (fun rest => 's' :: 'e' :: 'e' :: 's' :: 'a' :: 'w' :: 'O' :: 'R' :: '[' :: (a ++ ',' :: (bl 1 ++ (b ++ ',' ::
        (bl 1 ++ '{' :: (x0 ++ (tailR xs ++ '}' :: ',' :: (bl 1 ++ '{' :: (y0 ++ (tailR ys ++
          '}' :: ']' :: rest))))))))))
    (by simp) (startCh _ (by decide) (by decide) (by decide))
    (by simp [braces, renderList_cons, hat, hbt, hx0t, hy0t, hxt, hyt])
    (by have : ("seesawOR[".toList).length = 9 := rfl
        simp only [braces, renderList_cons, List.length_append, List.length_cons, this]; omega)
    (by intro rest; simp [braces, renderList_cons])
    (fun rest => seesawOR_rest a b x0 y0 xs ys ha hb hx0 hy0 hxs hys 1 1 1 rest)

theorem stmtText_seesawAND (a b : List Char) (xs ys : List (List Char)) (ha : Digits a) (hb : Digits b)
    (hx : xs ≠ [] ∧ ∀ x ∈ xs, Digits x) (hy : ys ≠ [] ∧ ∀ y ∈ ys, Digits y) :
    StmtText ("seesawAND[".toList ++ a ++ ", ".toList ++ b ++ ", ".toList ++ braces xs ++ ", ".toList ++ braces ys ++ [']'])
      (.grp [.tok "seesawAND", .grp [tokOf a, tokOf b, .grp (xs.map tokOf), .grp (ys.map tokOf)]]) := by
  obtain ⟨x0, xs, rfl, hx0, hxs⟩ := split_digits hx
  obtain ⟨y0, ys, rfl, hy0, hys⟩ := split_digits hy
  have hat := notab_digits ha; have hbt := notab_digits hb
  have hx0t := notab_digits hx0; have hy0t := notab_digits hy0
  have hxt := notab_tailR xs hxs; have hyt := notab_tailR ys hys
  have hl1 := length_le_tailR xs; have hl2 := length_le_tailR ys
  exact StmtText.of _ _ (xs.length + ys.length + 60) 's'
    (fun rest => 's' :: 'e' :: 'e' :: 's' :: 'a' :: 'w' :: 'A' :: 'N' :: 'D' :: '[' :: (a ++ ',' :: (bl 1 ++ (b ++ ',' ::
        (bl 1 ++ '{' :: (x0 ++ (tailR xs ++ '}' :: ',' :: (bl 1 ++ '{' :: (y0 ++ (tailR ys ++
          '}' :: ']' :: rest))))))))))
    (by simp) (startCh _ (by decide) (by decide) (by decide))
    (by simp [braces, renderList_cons, hat, hbt, hx0t, hy0t, hxt, hyt])
    (by have : ("seesawAND[".toList).length = 10 := rfl
        simp only [braces, renderList_cons, List.length_append, List.length_cons, this]; omega)
    (by intro rest; simp [braces, renderList_cons])
    (fun rest => seesawAND_rest a b x0 y0 xs ys ha hb hx0 hy0 hxs hys 1 1 1 rest)

theorem stmtText_wireconc (a b v : List Char) (ha : Digits a) (hb : Digits b) (hv : Digits v) (k : Nat) :
    StmtText ("conc[".toList ++ renderWire a b 1 ++ [','] ++ blanks k ++ v ++ "*c]".toList)
      (.grp [.tok "conc", wireTree a b, tokOf v]) := by
  have hat := notab_digits ha; have hbt := notab_digits hb; have hvt := notab_digits hv
  exact StmtText.of _ _ 60 'c'
    (fun rest => 'c' :: 'o' :: 'n' :: 'c' :: '[' :: 'w' :: '[' :: (a ++ ',' :: (bl 1 ++ (b ++ ']' :: ',' ::
        (bl k ++ (v ++ '*' :: 'c' :: ']' :: rest))))))
    (by simp) (startCh _ (by decide) (by decide) (by decide))
    (by simp [blanks, renderWire, hat, hbt, hvt])
    (by have h1 : ("conc[".toList).length = 5 := rfl
        have h2 : ("*c]".toList).length = 3 := rfl
        have h3 : ("w[".toList).length = 2 := rfl
        simp only [renderWire, List.length_append, List.length_cons, h1, h2, h3]; omega)
    (by intro rest; simp [blanks, renderWire])
    (fun rest => wireconc_rest a b v ha hb hv 1 k rest)

theorem stmtText_wireconc_decimal (a b v w : List Char) (ha : Digits a) (hb : Digits b) (hv : Digits v)
    (hw : Digits w) :
    StmtText ("conc[".toList ++ renderWire a b 1 ++ ", ".toList ++ v ++ ['.'] ++ w ++ "*c]".toList)
      (.grp [.tok "conc", wireTree a b, tokOf (v ++ ['.'] ++ w)]) := by
  have hat := notab_digits ha; have hbt := notab_digits hb; have hvt := notab_digits hv; have hwt := notab_digits hw
  have e : v ++ ['.'] ++ w = v ++ '.' :: w := by simp
  rw [e]
  exact StmtText.of _ _ 60 'c'
    (fun rest => 'c' :: 'o' :: 'n' :: 'c' :: '[' :: 'w' :: '[' :: (a ++ ',' :: (bl 1 ++ (b ++ ']' :: ',' ::
        (bl 1 ++ (v ++ '.' :: (w ++ '*' :: 'c' :: ']' :: rest)))))))
    (by simp) (startCh _ (by decide) (by decide) (by decide))
    (by simp [blanks, renderWire, hat, hbt, hvt, hwt])
    (by have h1 : ("conc[".toList).length = 5 := rfl
        have h2 : ("*c]".toList).length = 3 := rfl
        have h3 : ("w[".toList).length = 2 := rfl
        simp only [renderWire, List.length_append, List.length_cons, h1, h2, h3]; omega)
    (by intro rest; simp [blanks, renderWire])
    (fun rest => wireconc_dec_rest a b v w ha hb hv hw 1 1 rest)

theorem stmtText_gateO_conc (a b n v : List Char) (ha : Digits a) (hb : Digits b) (hn : Digits n) (hv : Digits v) :
    StmtText ("conc[g[".toList ++ renderWire a b 1 ++ ", ".toList ++ n ++ "], ".toList ++ v ++ "*c]".toList)
      (.grp [.tok "conc", .grp [.tok "g", .grp [wireTree a b, tokOf n]], tokOf v]) := by
  have hat := notab_digits ha; have hbt := notab_digits hb; have hnt := notab_digits hn; have hvt := notab_digits hv
  exact StmtText.of _ _ 80 'c'
    (fun rest => 'c' :: 'o' :: 'n' :: 'c' :: '[' :: 'g' :: '[' :: 'w' :: '[' :: (a ++ ',' :: (bl 1 ++ (b ++ ']' :: ',' ::
        (bl 1 ++ (n ++ ']' :: ',' :: (bl 1 ++ (v ++ '*' :: 'c' :: ']' :: rest))))))))
    (by simp) (startCh _ (by decide) (by decide) (by decide))
    (by simp [blanks, renderWire, hat, hbt, hnt, hvt])
    (by have h1 : ("conc[g[".toList).length = 7 := rfl
        have h2 : ("*c]".toList).length = 3 := rfl
        have h3 : ("w[".toList).length = 2 := rfl
        have h4 : ("], ".toList).length = 3 := rfl
        have h5 : (", ".toList).length = 2 := rfl
        simp only [renderWire, List.length_append, List.length_cons, h1, h2, h3, h4, h5]; omega)
    (by intro rest; simp [blanks, renderWire])
    (fun rest => gateO_conc_rest a b n v ha hb hn hv 1 1 1 rest)

theorem stmtText_gateI_conc (a b n v : List Char) (ha : Digits a) (hb : Digits b) (hn : Digits n) (hv : Digits v) :
    StmtText ("conc[g[".toList ++ n ++ ", ".toList ++ renderWire a b 1 ++ "], ".toList ++ v ++ "*c]".toList)
      (.grp [.tok "conc", .grp [.tok "g", .grp [tokOf n, wireTree a b]], tokOf v]) := by
  have hat := notab_digits ha; have hbt := notab_digits hb; have hnt := notab_digits hn; have hvt := notab_digits hv
  exact StmtText.of _ _ 80 'c'
    (fun rest => 'c' :: 'o' :: 'n' :: 'c' :: '[' :: 'g' :: '[' :: (n ++ ',' :: (bl 1 ++ ('w' :: '[' :: (a ++ ',' ::
        (bl 1 ++ (b ++ ']' :: ']' :: ',' :: (bl 1 ++ (v ++ '*' :: 'c' :: ']' :: rest)))))))))
    (by simp) (startCh _ (by decide) (by decide) (by decide))
    (by simp [blanks, renderWire, hat, hbt, hnt, hvt])
    (by have h1 : ("conc[g[".toList).length = 7 := rfl
        have h2 : ("*c]".toList).length = 3 := rfl
        have h3 : ("w[".toList).length = 2 := rfl
        have h4 : ("], ".toList).length = 3 := rfl
        have h5 : (", ".toList).length = 2 := rfl
        simp only [renderWire, List.length_append, List.length_cons, h1, h2, h3, h4, h5]; omega)
    (by intro rest; simp [blanks, renderWire])
    (fun rest => gateI_conc_rest a b n v ha hb hn hv 1 1 1 rest)

theorem stmtText_thO_conc (a b n v : List Char) (ha : Digits a) (hb : Digits b) (hn : Digits n) (hv : Digits v) :
    StmtText ("conc[th[".toList ++ renderWire a b 1 ++ ", ".toList ++ n ++ "], ".toList ++ v ++ "*c]".toList)
      (.grp [.tok "conc", .grp [.tok "th", .grp [wireTree a b, tokOf n]], tokOf v]) := by
  have hat := notab_digits ha; have hbt := notab_digits hb; have hnt := notab_digits hn; have hvt := notab_digits hv
  exact StmtText.of _ _ 80 'c'
    (fun rest => 'c' :: 'o' :: 'n' :: 'c' :: '[' :: 't' :: 'h' :: '[' :: 'w' :: '[' :: (a ++ ',' :: (bl 1 ++ (b ++ ']' ::
        ',' :: (bl 1 ++ (n ++ ']' :: ',' :: (bl 1 ++ (v ++ '*' :: 'c' :: ']' :: rest))))))))
    (by simp) (startCh _ (by decide) (by decide) (by decide))
    (by simp [blanks, renderWire, hat, hbt, hnt, hvt])
    (by have h1 : ("conc[th[".toList).length = 8 := rfl
        have h2 : ("*c]".toList).length = 3 := rfl
        have h3 : ("w[".toList).length = 2 := rfl
        have h4 : ("], ".toList).length = 3 := rfl
        have h5 : (", ".toList).length = 2 := rfl
        simp only [renderWire, List.length_append, List.length_cons, h1, h2, h3, h4, h5]; omega)
    (by intro rest; simp [blanks, renderWire])
    (fun rest => thO_conc_rest a b n v ha hb hn hv 1 1 1 rest)

/-! ### non-vacuity: a three-statement document of three different kinds -/

theorem parse_of_text_doc (env : Env) (g : G) (T : List Char) (s : String) (r : Option (List Tree))
    (h : parseDoc env g (String.ofList T) = r) (e : T = s.toList) : parseDoc env g s = r := by
  subst e; rwa [String.ofList_toList] at h

/-- `INPUT(1) = w[1, 2]`, a blank line, `seesaw[5, {1, 2}, {3}]`, `reporter[3, 7]` -/
example :
    parseDoc ssw_env ssw_grammar "INPUT(1) = w[1, 2]\n\nseesaw[5, {1, 2}, {3}]\nreporter[3, 7]\n" =
    some [.grp [.tok "INPUT", .grp [.tok "1"], .grp [.tok "w", .grp [.tok "1", .tok "2"]]],
          .grp [.tok "seesaw", .grp [.tok "5", .grp [.tok "1", .tok "2"], .grp [.tok "3"]]],
          .grp [.tok "reporter", .grp [.tok "3", .tok "7"]]] := by
  have d : ∀ c : Char, c ∈ pp_nums → Digits [c] := fun c hc => ⟨by simp, by simpa using hc⟩
  have d1 := d '1' (by decide); have d2 := d '2' (by decide); have d3 := d '3' (by decide)
  have d5 := d '5' (by decide); have d7 := d '7' (by decide)
  have h := document_rt
    [(_, _, 1), (_, _, 0), (_, _, 0)] (by simp)
    (by
      intro x hx
      simp only [List.mem_cons, List.not_mem_nil, or_false] at hx
      rcases hx with rfl | rfl | rfl
      · exact stmtText_input ['1'] ['1'] ['2'] d1 d1 d2 1 1 1
      · exact stmtText_seesaw ['5'] [['1'], ['2']] [['3']] d5
          ⟨by simp, by intro x hx; simp at hx; rcases hx with rfl | rfl <;> assumption⟩
          ⟨by simp, by intro x hx; simp at hx; subst hx; exact d3⟩
      · exact stmtText_reporter ['3'] ['7'] d3 d7 1)
  -- the theorem's text IS the literal (checked on the character lists, not by evaluating the parser on both)
  exact parse_of_text_doc _ _ _ _ _ h (by decide +kernel)

/-- the same document, checked directly against the interpreter -/
example :
    (match parseDoc ssw_env ssw_grammar "INPUT(1) = w[1, 2]\n\nseesaw[5, {1, 2}, {3}]\nreporter[3, 7]\n" with
     | some [.grp [.tok "INPUT", _, _], .grp [.tok "seesaw", _], .grp [.tok "reporter", _]] => true
     | _ => false) = true := by decide +kernel

end Dsd.C19
