import DsdVerif.Lemmas.PyIdentMain
import DsdVerif.Props.C02Full
import DsdVerif.Props.C02Canon

/-!
The `identifiers` class methods of `dsdobjects/base_classes.py` AS THEY ARE WRITTEN in the working tree — `Gen/PyIdentifiers.lean`
is regenerated from the source text, statement by statement, on every run (translator/pyident.py) — compute exactly what the
hand-written statement-level model computes (`CplxFull.identifiers`, Model/ComplexFull.lean), for EVERY registry and EVERY request:
`None` arguments, mismatched lengths, no strands, empty strands, rotationally symmetric complexes, failing rotations included.  A
change of one statement of `ComplexS.identifiers` changes the generated definition and re-opens these obligations.  The property
theorems of C02 (Props/C02Canon.lean, Props/C02Full.lean) are then transferred, so that they are statements about the code as
written: the canonical form is the lexicographically smallest rotation, it does not depend on the rotation supplied, `turns` leads
from the canonical form back to the supplied description.

Reading (translator/pyident.py): `cls._instanceCanon` is a parameter, the list `reg` of the registered keys (only `in` is used),
`cls.PREFIX`, `cls.ID` are parameters; the result is `(canon, name, newargs)` with `newargs` = `none` for `{}` and
`some (canon, turns, rcplxs)` for the three-key dict.  `idsView` embeds the model's result into these types, `errOfOut` names the
exception of an outcome (Lemmas/PyIdentLoop.lean).
-/
namespace Dsd.PyIdent
open Dsd Dsd.Gen Dsd.CplxFull

/-! ### equality with the model -/

/-- **`ComplexS.identifiers` as written in the source IS the statement-level model**, for every registry `r`, every list `reg`
    that has the registered keys as its members (only membership matters), every request -/
theorem py_ComplexS_identifiers_eq (pfx : String) (r : Reg CKey) (reg : List CKey)
    (hreg : ∀ k, reg.contains k = (r.findCanon k).isSome) (q : CplxReq) :
    py_ComplexS_identifiers reg pfx r.autoId q.seq q.sst q.name q.prefix_ = idsView (CplxFull.identifiers pfx r q) :=
  identifiers_eq pfx r reg hreg q

/-- … in particular with `reg` = the keys of all live objects, in the order of registration -/
theorem py_ComplexS_identifiers_eq_regKeys (pfx : String) (r : Reg CKey) (q : CplxReq) :
    py_ComplexS_identifiers (regKeys r) pfx r.autoId q.seq q.sst q.name q.prefix_ = idsView (CplxFull.identifiers pfx r q) :=
  identifiers_eq pfx r (regKeys r) (regKeys_contains r) q

/-- a registry whose registered keys are the members of an arbitrary list -/
def regOf (reg : List CKey) (id : Nat) : Reg CKey := { objs := [{ id := 0, name := "", canon := ([], []), keys := reg }], autoId := id }

theorem regOf_contains (reg : List CKey) (id : Nat) (k : CKey) : reg.contains k = ((regOf reg id).findCanon k).isSome := by
  rw [← regKeys_contains]; simp [regKeys, regOf]

/-- … and for EVERY value of the parameters of the translation (any list of keys, any `cls.ID`): nothing is assumed -/
theorem py_ComplexS_identifiers_eq_all (reg : List CKey) (pfx : String) (id : Nat) (seq : Option (List String)) (sst : List Char)
    (name pre : Option String) :
    py_ComplexS_identifiers reg pfx id seq sst name pre =
      idsView (CplxFull.identifiers pfx (regOf reg id) { seq := seq, sst := sst, name := name, prefix_ := pre }) :=
  identifiers_eq pfx (regOf reg id) reg (regOf_contains reg id) { seq := seq, sst := sst, name := name, prefix_ := pre }

/-- the net effect (through `CplxFullL.identifiers_eq`): the source's `identifiers` on a sequence is the model's
    `complexIdentifiers` — canonical form, turns, keys to register — with the name as given or `prefix`/`PREFIX` + `ID` -/
theorem py_ComplexS_identifiers_net (reg : List CKey) (pfx : String) (id : Nat) (seq : List String) (sst : List Char)
    (name pre : Option String) :
    py_ComplexS_identifiers reg pfx id (some seq) sst name pre =
      match complexIdentifiers (regOf reg id) seq sst with
      | .error e => .error (errOfOut e)
      | .ok ids => .ok (some ids.canon, some (name.getD ((pre.getD pfx) ++ toString id)), some (some ids.canon, (ids.turns : Int), ids.keys)) := by
  rw [py_ComplexS_identifiers_eq_all, CplxFullL.identifiers_eq pfx (regOf reg id) _ seq rfl]
  cases complexIdentifiers (regOf reg id) seq sst <;> rfl

/-- without a sequence the method only looks at the name: ObjectInitError without one, else no canonical form, no new arguments -/
theorem py_ComplexS_identifiers_none (reg : List CKey) (pfx : String) (id : Nat) (sst : List Char) (name pre : Option String) :
    py_ComplexS_identifiers reg pfx id none sst name pre =
      match name with
      | none => .error .objectInit
      | some n => .ok (none, some n, none) := by
  cases name <;> rfl

/-- the model is total where the source raises: the three `raise` statements and the rotation's SecondaryStructureError
    (kernel-checked witnesses; IndexError / KeyError of `sorted(…)[0]` / `cdict[canon]` are unreachable, see `py_ComplexS_identifiers_net`) -/
theorem py_ComplexS_identifiers_raises :
    py_ComplexS_identifiers [] "c" 1 none [] none none = .error .objectInit ∧
    py_ComplexS_identifiers [] "c" 1 (some ["a", "b"]) ['.'] none none = .error .objectInit ∧
    py_ComplexS_identifiers [] "c" 1 (some ["+"]) ['+'] none none = .error .objectInit ∧
    py_ComplexS_identifiers [] "c" 1 (some ["a", "+", "b"]) [')', '+', '.'] none none = .error .secondaryStructure := ⟨rfl, rfl, rfl, rfl⟩

/-- closed examples: automatic name from `PREFIX` / `prefix` and `ID`; a registered rotation is found at `e = 1` (`break`),
    `turns = wrap(-1, 2) = 1`, only the rotation visited before is in `rcplxs` -/
theorem py_ComplexS_identifiers_examples :
    py_ComplexS_identifiers [] "c" 12 (some ["b", "+", "a"]) ['(', '+', ')'] none none =
      .ok (some (["a", "+", "b"], ['(', '+', ')']), some "c12",
           some (some (["a", "+", "b"], ['(', '+', ')']), 1, [(["b", "+", "a"], ['(', '+', ')']), (["a", "+", "b"], ['(', '+', ')'])])) ∧
    py_ComplexS_identifiers [(["a", "+", "b"], ['(', '+', ')'])] "c" 12 (some ["b", "+", "a"]) ['(', '+', ')'] none (some "p") =
      .ok (some (["a", "+", "b"], ['(', '+', ')']), some "p12",
           some (some (["a", "+", "b"], ['(', '+', ')']), 1, [(["b", "+", "a"], ['(', '+', ')'])])) := ⟨rfl, rfl⟩

/-! ### C02 on the source-derived method -/

/-- the model's identifiers depend on the registry only through the set of registered keys (not on `ID`) -/
theorem loop_congr (r r' : Reg CKey) (h : ∀ k, (r.findCanon k).isSome = (r'.findCanon k).isSome) (n : Nat) :
    ∀ k e s t seen, complexIdentifiers.loop r n k e s t seen = complexIdentifiers.loop r' n k e s t seen := by
  intro k
  induction k with
  | zero => intro e s t seen; simp only [complexIdentifiers.loop]
  | succ k ih =>
    intro e s t seen
    simp only [complexIdentifiers.loop, h]
    split
    · rfl
    · split <;> first | rfl | exact ih _ _ _ _

theorem complexIdentifiers_congr (r r' : Reg CKey) (h : ∀ k, (r.findCanon k).isSome = (r'.findCanon k).isSome)
    (seq : List String) (sst : List Char) : complexIdentifiers r seq sst = complexIdentifiers r' seq sst := by
  unfold complexIdentifiers
  split
  · rfl
  · exact loop_congr r r' h _ _ _ _ _ _

/-- what a successful call on a sequence returns, in terms of the model's identifiers -/
theorem py_ok_ids (reg : List CKey) (pfx : String) (id : Nat) (seq : List String) (sst : List Char) (name pre : Option String)
    (res : PyIds) (h : py_ComplexS_identifiers reg pfx id (some seq) sst name pre = .ok res) :
    ∃ ids, complexIdentifiers (regOf reg id) seq sst = .ok ids ∧
      res = (some ids.canon, some (name.getD ((pre.getD pfx) ++ toString id)), some (some ids.canon, (ids.turns : Int), ids.keys)) := by
  rw [py_ComplexS_identifiers_net] at h
  cases hc : complexIdentifiers (regOf reg id) seq sst with
  | error e => rw [hc] at h; cases h
  | ok ids => rw [hc] at h; injection h with h; exact ⟨ids, rfl, h.symm⟩

theorem regOf_free (reg : List CKey) (id : Nat) (ks : List CKey) (hfree : ∀ k ∈ ks, reg.contains k = false) :
    ∀ k ∈ ks, (regOf reg id).findCanon k = none := by
  intro k hk
  have := regOf_contains reg id k
  rw [hfree k hk] at this
  cases h : (regOf reg id).findCanon k with
  | none => rfl
  | some o => rw [h] at this; cases this

/-- **the source's `identifiers` never raises on a well-formed description** (`C02.identifiers_total` transferred) -/
theorem py_identifiers_total (reg : List CKey) (pfx : String) (id : Nat) (seq : List String) (sst : List Char) (name pre : Option String)
    (hd : C02.Descr seq sst) :
    ∃ c t keys, py_ComplexS_identifiers reg pfx id (some seq) sst name pre =
      .ok (some c, some (name.getD ((pre.getD pfx) ++ toString id)), some (some c, t, keys)) := by
  obtain ⟨ids, h⟩ := C02.identifiers_total (regOf reg id) seq sst hd
  exact ⟨ids.canon, ids.turns, ids.keys, by rw [py_ComplexS_identifiers_net, h]⟩

/-- **the canonical form the source computes is the lexicographically smallest rotation** when no rotation is registered: it is
    a rotation, no rotation is smaller (Python's tuple order: names first, structure second), and `rcplxs` are exactly the
    rotations (`C02.canon_mem_min` transferred) -/
theorem py_canon_mem_min (reg : List CKey) (pfx : String) (id : Nat) (seq : List String) (sst : List Char) (name pre : Option String)
    (hd : C02.Descr seq sst) (hfree : ∀ k ∈ C02.orbit (C02.nStrands seq) seq sst, reg.contains k = false)
    (canon : Option CKey) (nm : Option String) (newargs : Option (Option CKey × Int × List CKey))
    (h : py_ComplexS_identifiers reg pfx id (some seq) sst name pre = .ok (canon, nm, newargs)) :
    ∃ c t keys, canon = some c ∧ newargs = some (some c, t, keys) ∧
      c ∈ C02.orbit (C02.nStrands seq) seq sst ∧ (∀ k ∈ C02.orbit (C02.nStrands seq) seq sst, Py.ckeyLt k c = false) ∧
      (∀ k, k ∈ keys ↔ k ∈ C02.orbit (C02.nStrands seq) seq sst) := by
  obtain ⟨ids, hi, hr⟩ := py_ok_ids _ _ _ _ _ _ _ _ h
  injection hr with h1 h2; injection h2 with _ h3
  have := C02.canon_mem_min (regOf reg id) seq sst ids hd hi (regOf_free reg id _ hfree)
  rw [ckeyLt_eq]
  exact ⟨ids.canon, ids.turns, ids.keys, h1, h3, this⟩

/-- **the canonical form does not depend on which rotation is supplied** (`C02.canon_rot_invariant` transferred; the rotation
    is the source's own `rotate_complex_once`) -/
theorem py_canon_rot_invariant (reg : List CKey) (pfx : String) (id id' : Nat) (seq : List String) (sst : List Char)
    (name pre name' pre' : Option String) (hd : C02.Descr seq sst)
    (hfree : ∀ k ∈ C02.orbit (C02.nStrands seq) seq sst, reg.contains k = false)
    (r1 : List String × List Char) (h1 : py_rotate_complex_once seq sst = .ok r1) (res res1 : PyIds)
    (h : py_ComplexS_identifiers reg pfx id (some seq) sst name pre = .ok res)
    (h' : py_ComplexS_identifiers reg pfx id' (some r1.1) r1.2 name' pre' = .ok res1) :
    res1.1 = res.1 := by
  rw [PyEq.rotate_complex_once_eq seq sst hd.aligned.1] at h1
  obtain ⟨ids, hi, hr⟩ := py_ok_ids _ _ _ _ _ _ _ _ h
  obtain ⟨ids1, hi1, hr1⟩ := py_ok_ids _ _ _ _ _ _ _ _ h'
  have hi1' : complexIdentifiers (regOf reg id) r1.1 r1.2 = .ok ids1 := by
    rw [complexIdentifiers_congr (regOf reg id) (regOf reg id') (fun k => by rw [← regOf_contains, ← regOf_contains])]; exact hi1
  rw [hr, hr1]
  exact congrArg some (C02.canon_rot_invariant (regOf reg id) seq sst hd r1 h1 ids ids1 (regOf_free reg id _ hfree) hi hi1')

/-- **`turns`**: rotating the canonical form by the `turns` the source computes yields exactly the supplied description
    (`C02.turns_correct` transferred) -/
theorem py_turns_correct (reg : List CKey) (pfx : String) (id : Nat) (seq : List String) (sst : List Char) (name pre : Option String)
    (hd : C02.Descr seq sst) (hfree : ∀ k ∈ C02.orbit (C02.nStrands seq) seq sst, reg.contains k = false)
    (canon : Option CKey) (nm : Option String) (newargs : Option (Option CKey × Int × List CKey))
    (h : py_ComplexS_identifiers reg pfx id (some seq) sst name pre = .ok (canon, nm, newargs)) :
    ∃ (c : CKey) (t : Nat) (keys : List CKey), canon = some c ∧ newargs = some (some c, Int.ofNat t, keys) ∧ t < C02.nStrands seq ∧
      rotateN t c.1 c.2 = .ok (seq, sst) := by
  obtain ⟨ids, hi, hr⟩ := py_ok_ids _ _ _ _ _ _ _ _ h
  injection hr with h1 h2; injection h2 with _ h3
  exact ⟨ids.canon, ids.turns, ids.keys, h1, h3, C02.turns_correct (regOf reg id) seq sst ids hd hi (regOf_free reg id _ hfree)⟩

/-- **equal canonical forms exactly for rotation-equivalent descriptions** (empty registry; `C02.canon_eq_iff` transferred) -/
theorem py_canon_eq_iff (pfx : String) (id id' : Nat) (seq seq' : List String) (sst sst' : List Char) (name pre name' pre' : Option String)
    (hd : C02.Descr seq sst) (hd' : C02.Descr seq' sst') (res res' : PyIds)
    (h : py_ComplexS_identifiers [] pfx id (some seq) sst name pre = .ok res)
    (h' : py_ComplexS_identifiers [] pfx id' (some seq') sst' name' pre' = .ok res') :
    res.1 = res'.1 ↔ (seq', sst') ∈ C02.orbit (C02.nStrands seq) seq sst := by
  obtain ⟨ids, hi, hr⟩ := py_ok_ids _ _ _ _ _ _ _ _ h
  obtain ⟨ids', hi', hr'⟩ := py_ok_ids _ _ _ _ _ _ _ _ h'
  have e : ∀ n, complexIdentifiers (regOf [] n) = complexIdentifiers ({} : Reg CKey) := by
    intro n; funext s t
    exact complexIdentifiers_congr _ _ (fun k => by rw [← regOf_contains]; rfl) s t
  rw [hr, hr']
  rw [e] at hi hi'
  simp only [Option.some.injEq]
  exact C02.canon_eq_iff seq seq' sst sst' hd hd' ids ids' hi hi'

/-- a registered rotation is returned as it is found: the canonical form the source returns for a description is registered,
    or none of the keys it asks `__init__` to register is (`RegL.complexIdentifiers_spec` transferred) -/
theorem py_canon_registered_or_fresh (reg : List CKey) (pfx : String) (id : Nat) (seq : List String) (sst : List Char) (name pre : Option String)
    (canon : Option CKey) (nm : Option String) (newargs : Option (Option CKey × Int × List CKey))
    (h : py_ComplexS_identifiers reg pfx id (some seq) sst name pre = .ok (canon, nm, newargs)) :
    ∃ c t keys, canon = some c ∧ newargs = some (some c, t, keys) ∧
      ((c ∈ keys ∧ ∀ k ∈ keys, reg.contains k = false) ∨ reg.contains c = true) := by
  obtain ⟨ids, hi, hr⟩ := py_ok_ids _ _ _ _ _ _ _ _ h
  injection hr with h1 h2; injection h2 with _ h3
  refine ⟨ids.canon, ids.turns, ids.keys, h1, h3, ?_⟩
  rcases RegL.complexIdentifiers_spec (regOf reg id) seq sst ids hi with ⟨a, b⟩ | c
  · left
    refine ⟨a, fun k hk => ?_⟩
    rw [regOf_contains reg id, b k hk]; rfl
  · right; rw [regOf_contains reg id]; exact c

/-! ### `StrandS.identifiers` -/

/-- the outcome that stands for an exception of the source (inverse of `errOfOut` on what `identifiers` raises) -/
def outOfErr : Err → Out
  | .secondaryStructure => .ssErr
  | .objectInit => .objectInitErr
  | .singleton e => .singletonErr e
  | .notImplemented => .notImplemented
  | .assertion => .assertion
  | .pilFormat => .fault "PilFormatError"
  | .parse => .fault "ParseException"
  | .fault k => .fault k

/-- **`StrandS.identifiers` as written in the source, in closed form**, for every argument: ObjectInitError without sequence
    and name; NotImplementedError for a sequence that contains `+`; else the canonical form is the sequence with a structure of
    `*`, the name as given or `prefix`/`PREFIX` + `ID`, and `newargs = {'canon': canon, 'turns': 0}` -/
theorem py_StrandS_identifiers_eq (pfx : String) (id : Nat) (seq : Option (List String)) (name pre : Option String) :
    py_StrandS_identifiers pfx id seq name pre =
      match seq with
      | none => (match name with | none => .error .objectInit | some n => .ok (none, some n, none))
      | some sequence =>
        if sequence.contains "+" then .error .notImplemented
        else
          let canon : CKey := (sequence, (List.range sequence.length).map (fun _ => '*'))
          .ok (some canon, some (match name with | some n => n | none => (match pre with | none => pfx | some p => p) ++ toString id),
               some (some canon, 0)) := by
  cases seq with
  | none => cases name <;> rfl
  | some sequence =>
    simp only [py_StrandS_identifiers, bind, Except.bind, pure, Except.pure]
    by_cases h : sequence.contains "+" = true
    · simp only [h, ↓reduceIte]; rfl
    · simp only [h, Bool.false_eq_true, ↓reduceIte]
      cases name <;> cases pre <;> rfl

/-- **the model's `StrandS(sequence, name, prefix)` IS `Singleton.__call__` on what the source's `StrandS.identifiers`
    returns**: the identifiers part of `strandRequestFull` (Model/ComplexFull.lean) is the translated method, for every registry
    and every argument; `StrandS.__init__` registers nothing itself and consumes `ID` iff no name was given -/
theorem strandRequestFull_eq_py (pfx : String) (r : Reg CKey) (fresh : Nat) (seq : Option (List String)) (name pre : Option String) :
    strandRequestFull pfx r fresh seq name pre =
      match py_StrandS_identifiers pfx r.autoId seq name pre with
      | .error e => (r, outOfErr e)
      | .ok (canon, nm, _) => r.callFull canon (nm.getD "") fresh [] name.isNone := by
  rw [py_StrandS_identifiers_eq]
  unfold strandRequestFull
  cases seq with
  | none => cases name <;> rfl
  | some sequence =>
    simp only
    by_cases h : sequence.contains "+" = true
    · simp only [h, ↓reduceIte]; rfl
    · simp only [h, Bool.false_eq_true, ↓reduceIte]
      cases name <;> rfl

/-- hence `C02.strandRequestFull_eq` as a statement about the source's method: requesting a strand is `strandRequest` of the
    net-effect model with the canonical form the source computes (for every name but the empty string) -/
theorem py_strand_request (pfx : String) (r : Reg CKey) (fresh : Nat) (seq : Option (List String)) (name pre : Option String)
    (hname : name ≠ some "") :
    (match py_StrandS_identifiers pfx r.autoId seq name pre with
      | .error e => (r, outOfErr e)
      | .ok (canon, nm, _) => r.callFull canon (nm.getD "") fresh [] name.isNone) =
    strandRequest (pre.getD pfx) r fresh seq name := by
  rw [← strandRequestFull_eq_py]; exact C02.strandRequestFull_eq pfx r fresh seq name pre hname

/-- the canonical form of a strand determines its sequence: two sequences get the same canonical form iff they are equal -/
theorem py_strand_canon_inj (pfx pfx' : String) (id id' : Nat) (s s' : List String) (name pre name' pre' : Option String)
    (res res' : Option CKey × Option String × Option (Option CKey × Nat))
    (h : py_StrandS_identifiers pfx id (some s) name pre = .ok res)
    (h' : py_StrandS_identifiers pfx' id' (some s') name' pre' = .ok res') :
    res.1 = res'.1 ↔ s = s' := by
  rw [py_StrandS_identifiers_eq] at h h'
  simp only at h h'
  split at h
  · cases h
  · split at h'
    · cases h'
    · injection h with h; injection h' with h'
      subst h; subst h'
      constructor
      · intro e; injection e with e; exact congrArg Prod.fst e
      · intro e; subst e; rfl

theorem py_StrandS_identifiers_examples :
    py_StrandS_identifiers "s" 3 (some ["a", "b"]) none (some "q") = .ok (some (["a", "b"], ['*', '*']), some "q3", some (some (["a", "b"], ['*', '*']), 0)) ∧
    py_StrandS_identifiers "s" 3 (some ["a", "+", "b"]) none none = .error .notImplemented ∧
    py_StrandS_identifiers "s" 3 none none none = .error .objectInit ∧
    py_StrandS_identifiers "s" 3 none (some "x") none = .ok (none, some "x", none) := ⟨rfl, rfl, rfl, rfl⟩

end Dsd.PyIdent

#print axioms Dsd.PyIdent.py_ComplexS_identifiers_eq
#print axioms Dsd.PyIdent.py_ComplexS_identifiers_eq_regKeys
#print axioms Dsd.PyIdent.py_ComplexS_identifiers_eq_all
#print axioms Dsd.PyIdent.py_ComplexS_identifiers_net
#print axioms Dsd.PyIdent.py_ComplexS_identifiers_none
#print axioms Dsd.PyIdent.py_ComplexS_identifiers_raises
#print axioms Dsd.PyIdent.py_ComplexS_identifiers_examples
#print axioms Dsd.PyIdent.py_identifiers_total
#print axioms Dsd.PyIdent.py_canon_mem_min
#print axioms Dsd.PyIdent.py_canon_rot_invariant
#print axioms Dsd.PyIdent.py_turns_correct
#print axioms Dsd.PyIdent.py_canon_eq_iff
#print axioms Dsd.PyIdent.py_canon_registered_or_fresh
#print axioms Dsd.PyIdent.py_StrandS_identifiers_eq
#print axioms Dsd.PyIdent.strandRequestFull_eq_py
#print axioms Dsd.PyIdent.py_strand_request
#print axioms Dsd.PyIdent.py_strand_canon_inj
#print axioms Dsd.PyIdent.py_StrandS_identifiers_examples
#print axioms Dsd.PyIdent.ckeyLt_eq
#print axioms Dsd.PyIdent.sortedBy_eq
