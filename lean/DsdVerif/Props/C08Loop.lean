import DsdVerif.Model.Complex
import DsdVerif.Lemmas.Matcher
import DsdVerif.Lemmas.MatchingUnique
import DsdVerif.Lemmas.Locus
import DsdVerif.Props.C06Loci
import DsdVerif.Lemmas.Loop

namespace Dsd.C08
open Dsd.Bracket

/-! Specification of the loop decomposition of a linear bracket word `W` with matching `M`
(strand boundaries are given separately by the strand lengths `lens`, `lens.sum = W.length`). -/

/-- number of the loop enclosed by the pair opened at `j`: its rank among the opening brackets (1-based) -/
def num (W : List Sym) (j : Nat) : Nat := ((W.take (j + 1)).filter (· == .op)).length

/-- `Encl W M b j`: `(j, M j)` is the innermost pair that encloses the *gap before position* `b`
    (`j < b ≤ M j`), i.e. no pair opened later does -/
def Encl (W : List Sym) (M : Nat → Option Nat) (b j : Nat) : Prop :=
  W[j]? = some .op ∧ (∃ k, M j = some k ∧ j < b ∧ b ≤ k) ∧
  ∀ j', W[j']? = some .op → (∃ k', M j' = some k' ∧ j' < b ∧ b ≤ k') → j' ≤ j

/-- loop that contains the gap before position `b` (0 = the outermost loop) -/
def LoopAt (W : List Sym) (M : Nat → Option Nat) (b l : Nat) : Prop :=
  (∃ j, Encl W M b j ∧ l = num W j) ∨ ((¬ ∃ j, Encl W M b j) ∧ l = 0)

/-- the linear pair table split into strands -/
def linStrands (lens : List Nat) (t : List (Option Nat)) : List (List (Option Nat)) := reshape lens t

/-- **Loop indices.**  In `components` mode the scan never fails on a balanced word, and it numbers loops in
    the order of their opening bracket: both partners of a pair get the number of the loop they enclose, an
    unpaired position gets the loop that contains it (the number of its innermost enclosing pair, 0 outside
    all pairs). -/
theorem loop_index_spec (W : List Sym) (t : List (Option Nat)) (lens : List Nat)
    (hm : matchW W = some t) (hl : lens.sum = W.length) :
    ∃ ext my s, loopScan true (linStrands lens t) 0 {} [] [] = .ok (ext, my, s) ∧
      s.loopIndex.length = W.length ∧
      (∀ i, W[i]? = some .op → s.loopIndex[i]? = some (num W i)) ∧
      (∀ i j, W[i]? = some .cl → P t i = some j → s.loopIndex[i]? = some (num W j)) ∧
      (∀ i l, W[i]? = some .dot → LoopAt W (P t) i l → s.loopIndex[i]? = some l) :=
  Loop.loop_index_spec W t lens hm hl

/-- the loop index table does not depend on the `components` flag whenever the plain mode succeeds -/
theorem loop_index_modes_agree (lin : List (List (Option Nat))) (ext my s)
    (h : loopScan false lin 0 {} [] [] = .ok (ext, my, s)) :
    ∃ ext' my' s', loopScan true lin 0 {} [] [] = .ok (ext', my', s') ∧ s'.loopIndex = s.loopIndex ∧ my' = my :=
  ⟨ext, my, s, Loop.modes_agree lin 0 {} [] [] _ h, rfl, rfl⟩

/-- **Exterior loops.**  `myext[k]` is the pair (loop containing the gap before strand `k`, loop containing the
    gap after strand `k`); in plain mode the reported exterior set is exactly the set of these loops —
    the loops that contain a strand break or the outer ends. -/
theorem exterior_spec (W : List Sym) (t : List (Option Nat)) (lens : List Nat)
    (hm : matchW W = some t) (hl : lens.sum = W.length) :
    ∃ ext my s, loopScan true (linStrands lens t) 0 {} [] [] = .ok (ext, my, s) ∧
      my.length = lens.length ∧
      (∀ k a b, my[k]? = some (a, b) →
        LoopAt W (P t) ((lens.take k).sum) a ∧ LoopAt W (P t) ((lens.take (k + 1)).sum) b) ∧
      (∀ l, l ∈ ext ↔ ∃ (k : Nat) (a : Nat), my[k]? = some (a, l)) :=
  Loop.exterior_spec W t lens hm hl

/-- a set `S` of strand indices is closed under pairing -/
def Closed (lens : List Nat) (M : Nat → Option Nat) (S : Nat → Prop) : Prop :=
  ∀ i j, M i = some j → i < lens.sum → (S (toLocus lens i).1 ↔ S (toLocus lens j).1)

/-- the strands form a single connected component under base pairing -/
def Connected (lens : List Nat) (M : Nat → Option Nat) : Prop :=
  ∀ S : Nat → Prop, Closed lens M S → (∃ k, k < lens.length ∧ S k) → ∀ k, k < lens.length → S k

/-- **Connectivity (⇐ half).**  If the plain mode reports "not connected" then the strands do not form a single
    component (two strand ends lie in the same loop, so the strands between them are closed under pairing). -/
theorem not_connected_of_error (W : List Sym) (t : List (Option Nat)) (lens : List Nat)
    (hm : matchW W = some t) (hl : lens.sum = W.length) (hpos : ∀ n ∈ lens, 0 < n)
    (h : loopScan false (linStrands lens t) 0 {} [] [] = .error .secondaryStructure) :
    ¬ Connected lens (P t) := by
  have _ := hpos   -- not needed for this direction
  exact Loop.not_connected_of_error W t lens hm hl h

/-- **Connectivity (⇒ half).**  If the strands do not form a single component the plain mode reports it. -/
theorem error_of_not_connected (W : List Sym) (t : List (Option Nat)) (lens : List Nat)
    (hm : matchW W = some t) (hl : lens.sum = W.length) (hpos : ∀ n ∈ lens, 0 < n)
    (h : ¬ Connected lens (P t)) :
    loopScan false (linStrands lens t) 0 {} [] [] = .error .secondaryStructure :=
  Loop.error_of_not_connected W t lens hm hl hpos h

/-- the model's `makeLoopIndex` on the output of `makePairTable` runs `loopScan` on the linear table -/
theorem makeLoopIndex_linear (ss : List Char) (brk : Char) (pt : PairTable) (comp : Bool)
    (h : makePairTable ss brk = .ok pt) :
    ∃ W t, matchW W = some t ∧ (pt.map List.length).sum = W.length ∧
      makeLoopIndex pt comp =
        (match loopScan comp (linStrands (pt.map List.length) t) 0 {} [] [] with
         | .error e => .error e
         | .ok (ext, my, s) => .ok { loopIndex := reshape (pt.map List.length) s.loopIndex, exterior := ext, myext := my }) :=
  Loop.makeLoopIndex_linear ss brk pt comp h

/-- non-vacuity: a nicked multiloop -/
example : (makePairTable "((.+.)+(+)).".toList '+').toOption.bind (fun pt => (makeLoopIndex pt false).toOption) =
    some { loopIndex := [[1, 2, 2], [2, 2], [3], [3, 1, 0]], exterior := [2, 1, 3, 0], myext := [(0, 2), (2, 1), (1, 3), (3, 0)] } := by
  decide

end Dsd.C08
