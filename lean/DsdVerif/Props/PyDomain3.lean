/-
`DomainS.identifiers` AS WRITTEN against the model `DomFull.identifiers`, continued (see Props/PyDomain2.lean for `RepX`, `Related`,
`toIdents` and the first two branches).
-/
import DsdVerif.Lemmas.PyDomainEqIdent3
import DsdVerif.Lemmas.PyDomainEqIdent3b

namespace Dsd.PyDomain3
open Dsd Dsd.Gen Dsd.PyDomainEq

/-- (c), branch `elif length is not None and name[-1] != '*'`: an unstarred name with a length - `clength = len(cls(cname))`, then
    the bare `cls(cname, length = length)`, each under `try … except SingletonError` with the handler `if clength != length: raise` -/
theorem py_identifiers_unstarred_length (request : Py.Dom.Req → Py.Dom.M Nat) (nested : Reg DKey → DomReq → Reg DKey × Out) (tmp : Nat)
    (hrel : Related request nested tmp) (s : Py.Dom.Cls) (r : Reg DKey) (h : RepX s r) (cfg : DomCfg)
    (n : String) (hne : n ≠ "") (hst : isStarred n = false) (l : Nat) (pfx : Option String) :
    ∃ s', RepX s' (DomFull.identifiers nested cfg r { name := some n, length := some l, prefix_ := pfx }).1 ∧
      (py_DomainS_identifiers request tmp cfg.cutoff cfg.shortLen cfg.longLen cfg.prefix_ (some n) (some l) pfx none).exec s =
        (toIdents (DomFull.identifiers nested cfg r { name := some n, length := some l, prefix_ := pfx }).2, s') :=
  identifiers_unstarred_length request nested tmp hrel s r h cfg n hne hst l pfx

/-- (c), branch `if length is None and name[-1] == '*'`: a starred name without a length inherits the length of its live partner
    through the nested request (`newargs = {'length': length}`), or gets no canonical form when that request is refused -/
theorem py_identifiers_starred_nolength (request : Py.Dom.Req → Py.Dom.M Nat) (nested : Reg DKey → DomReq → Reg DKey × Out) (tmp : Nat)
    (hrel : Related request nested tmp) (s : Py.Dom.Cls) (r : Reg DKey) (h : RepX s r) (cfg : DomCfg)
    (n : String) (hne : n ≠ "") (hst : isStarred n = true) (pfx : Option String) :
    ∃ s', RepX s' (DomFull.identifiers nested cfg r { name := some n, prefix_ := pfx }).1 ∧
      (py_DomainS_identifiers request tmp cfg.cutoff cfg.shortLen cfg.longLen cfg.prefix_ (some n) none pfx none).exec s =
        (toIdents (DomFull.identifiers nested cfg r { name := some n, prefix_ := pfx }).2, s') :=
  identifiers_starred_nolength request nested tmp hrel s r h cfg n hne hst pfx

#print axioms py_identifiers_unstarred_length
#print axioms py_identifiers_starred_nolength

end Dsd.PyDomain3
