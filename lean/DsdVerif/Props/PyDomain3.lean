/-
`DomainS.identifiers` AS WRITTEN against the model `DomFull.identifiers`, continued (see Props/PyDomain2.lean for `RepX`, `Related`,
`toIdents` and the first two branches).
-/
import DsdVerif.Lemmas.PyDomainEqIdent3
import DsdVerif.Lemmas.PyDomainEqIdent3b
import DsdVerif.Lemmas.PyDomainEqIdent3c
import DsdVerif.Lemmas.PyDomainEqIdent3d

namespace Dsd.PyDomain3
open Dsd Dsd.Gen Dsd.PyDomainEq

/-- (c), branch `elif length is not None and name[-1] != '*'`: an unstarred name with a length - `clength = len(cls(cname))`, then
    the bare `cls(cname, length = length)`, each under `try … except SingletonError` with the handler `if clength != length: raise` -/
theorem py_identifiers_unstarred_length (request : Py.Dom.Req → Py.Dom.M Nat) (nested : Reg DKey → DomReq → Reg DKey × Out) (tmp : Nat)
    (hrel : Related request nested tmp) (s : Py.Dom.Cls) (r : Reg DKey) (h : RepX s r) (cfg : DomCfg)
    (n : String) (hne : n ≠ "") (hst : isStarred n = false) (l : Nat) (pfx : Option String) :
    ∃ s', RepX s' (DomFull.identifiers nested cfg r { name := some n, length := some l, prefix_ := pfx }).1 ∧
      (py_DomainS_identifiers request tmp cfg.cutoff cfg.shortLen cfg.longLen cfg.prefix_ (some n) (some l) pfx none).exec s =
        (toIdents (DomFull.identifiers nested cfg r { name := some n, length := some l, prefix_ := pfx }).2, s') :=
  identifiers_unstarred_length request nested tmp hrel s r h cfg n hne hst l pfx

/-- (c), branch `if length is None and name[-1] == '*'`: a starred name without a length inherits the length of its live partner
    through the nested request (`newargs = {'length': length}`), or gets no canonical form when that request is refused -/
theorem py_identifiers_starred_nolength (request : Py.Dom.Req → Py.Dom.M Nat) (nested : Reg DKey → DomReq → Reg DKey × Out) (tmp : Nat)
    (hrel : Related request nested tmp) (s : Py.Dom.Cls) (r : Reg DKey) (h : RepX s r) (cfg : DomCfg)
    (n : String) (hne : n ≠ "") (hst : isStarred n = true) (pfx : Option String) :
    ∃ s', RepX s' (DomFull.identifiers nested cfg r { name := some n, prefix_ := pfx }).1 ∧
      (py_DomainS_identifiers request tmp cfg.cutoff cfg.shortLen cfg.longLen cfg.prefix_ (some n) none pfx none).exec s =
        (toIdents (DomFull.identifiers nested cfg r { name := some n, prefix_ := pfx }).2, s') :=
  identifiers_starred_nolength request nested tmp hrel s r h cfg n hne hst pfx

/-- (c), the automatic-name case (`name is None`): code and model first compute `name = f'{prefix}{cls.ID}'` (prefix defaulting to the
    class prefix; `cls.ID` is the registry's counter under `RepX`) and then proceed exactly as for that explicit name - so the four
    branch theorems apply to automatic names -/
theorem py_identifiers_auto_name (request : Py.Dom.Req → Py.Dom.M Nat) (nested : Reg DKey → DomReq → Reg DKey × Out) (tmp : Nat)
    (s : Py.Dom.Cls) (r : Reg DKey) (h : RepX s r) (cfg : DomCfg) (l : Option Nat) (pfx : Option String) :
    (py_DomainS_identifiers request tmp cfg.cutoff cfg.shortLen cfg.longLen cfg.prefix_ none l pfx none).exec s =
      (py_DomainS_identifiers request tmp cfg.cutoff cfg.shortLen cfg.longLen cfg.prefix_
        (some (pfx.getD cfg.prefix_ ++ toString s.ID)) l pfx none).exec s ∧
    DomFull.identifiers nested cfg r { name := none, length := l, prefix_ := pfx } =
      DomFull.identifiers nested cfg r { name := some (pfx.getD cfg.prefix_ ++ toString s.ID), length := l, prefix_ := pfx } := by
  refine ⟨identifiers_auto_name_py request tmp _ _ _ _ l pfx none s, ?_⟩
  rw [h.id]
  exact identifiers_auto_name_model nested cfg r l pfx none

/-- (c), `dtype` without a length (`C04.dtype_default_lengths` at the level of `identifiers`): code and model first set the length to
    the class default of the dtype and then proceed exactly as for that length without dtype, for every name (also None) -/
theorem py_identifiers_dtype_default (request : Py.Dom.Req → Py.Dom.M Nat) (nested : Reg DKey → DomReq → Reg DKey × Out) (tmp : Nat)
    (s : Py.Dom.Cls) (r : Reg DKey) (cfg : DomCfg) (name : Option String) (pfx : Option String) :
    ((py_DomainS_identifiers request tmp cfg.cutoff cfg.shortLen cfg.longLen cfg.prefix_ name none pfx (some "short")).exec s =
        (py_DomainS_identifiers request tmp cfg.cutoff cfg.shortLen cfg.longLen cfg.prefix_ name (some cfg.shortLen) pfx none).exec s ∧
      DomFull.identifiers nested cfg r { name := name, prefix_ := pfx, dtype := some .short } =
        DomFull.identifiers nested cfg r { name := name, length := some cfg.shortLen, prefix_ := pfx }) ∧
    ((py_DomainS_identifiers request tmp cfg.cutoff cfg.shortLen cfg.longLen cfg.prefix_ name none pfx (some "long")).exec s =
        (py_DomainS_identifiers request tmp cfg.cutoff cfg.shortLen cfg.longLen cfg.prefix_ name (some cfg.longLen) pfx none).exec s ∧
      DomFull.identifiers nested cfg r { name := name, prefix_ := pfx, dtype := some .long } =
        DomFull.identifiers nested cfg r { name := name, length := some cfg.longLen, prefix_ := pfx }) :=
  ⟨⟨identifiers_dtype_short_py request tmp _ _ _ _ name pfx s, (identifiers_dtype_model nested cfg r name pfx).1⟩,
   ⟨identifiers_dtype_long_py request tmp _ _ _ _ name pfx s, (identifiers_dtype_model nested cfg r name pfx).2⟩⟩

#print axioms py_identifiers_auto_name
#print axioms py_identifiers_dtype_default
#print axioms py_identifiers_unstarred_length
#print axioms py_identifiers_starred_nolength

end Dsd.PyDomain3
