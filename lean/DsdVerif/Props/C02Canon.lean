import DsdVerif.Model.World
import DsdVerif.Props.C01Reg
import DsdVerif.Props.C07Rot
import DsdVerif.Lemmas.CanonIds

namespace Dsd.C02
open Dsd Dsd.Bracket

/-- the rotations `[x, r x, …, r^(n-1) x]` of a description (those that exist) -/
def orbit (n : Nat) (seq : List String) (sst : List Char) : List CKey :=
  (List.range n).filterMap (fun k => (rotateN k seq sst).toOption)

/-- number of strands as `ComplexS.identifiers` counts them -/
def nStrands (seq : List String) : Nat := (makeStrandTableList "+" seq).length

/-- the key order is a strict total order (Python tuple comparison: names first, structure second) -/
theorem ckeyLt_irrefl (a : CKey) : ckeyLt a a = false := by
  exact Ord.ckeyLt_sto.irrefl a
theorem ckeyLt_trans (a b c : CKey) : ckeyLt a b = true → ckeyLt b c = true → ckeyLt a c = true := by
  exact Ord.ckeyLt_sto.trans a b c
theorem ckeyLt_total (a b : CKey) : a = b ∨ ckeyLt a b = true ∨ ckeyLt b a = true := by
  exact Ord.ckeyLt_sto.total a b
theorem ckeyLt_names_first (a b : CKey) (h : lexLt strLt a.1 b.1 = true) (hne : a.1 ≠ b.1) : ckeyLt a b = true := by
  simp only [ckeyLt, hne, if_false]; exact h

/-- a well-formed description: names and structure aligned, structure balanced, only `( ) . +`,
    no empty strand -/
structure Descr (seq : List String) (sst : List Char) : Prop where
  aligned : C07.Aligned seq sst
  balanced : ∃ t, matchW (C07.word sst) = some t
  chars : ∀ c ∈ sst, c = '(' ∨ c = ')' ∨ c = '.' ∨ c = '+'
  nonempty : ∀ s ∈ splitOn "+" seq, s ≠ []

/-- bridge to the lemma-level notions -/
theorem descr_iff (seq : List String) (sst : List Char) : Descr seq sst ↔ Rot.Descr' seq sst := by
  constructor
  · intro h
    obtain ⟨t, ht⟩ := h.balanced
    rw [C07.word_eq] at ht
    exact ⟨h.aligned, ⟨t, ht⟩, h.chars, h.nonempty⟩
  · intro h
    obtain ⟨t, ht⟩ := h.bal
    exact ⟨h.al, ⟨t, by rw [C07.word_eq]; exact ht⟩, h.chars, h.nonempty⟩

theorem orbit_eq : orbit = Rot.orb := rfl
theorem nStrands_eq : nStrands = Rot.nStr := rfl

/-- with no rotation registered, the identifiers are: minimum of the orbit, the orbit without duplicates -/
theorem ids_free (r : Reg CKey) (seq : List String) (sst : List Char) (ids : CplxIds)
    (hd : Descr seq sst) (h : complexIdentifiers r seq sst = .ok ids)
    (hfree : ∀ k ∈ orbit (nStrands seq) seq sst, r.findCanon k = none) :
    minKey (orbit (nStrands seq) seq sst) = some ids.canon ∧
    ids.turns = wrap (-(lastIdxOf (orbit (nStrands seq) seq sst) ids.canon : Int)) (nStrands seq) ∧
    ids.keys = (orbit (nStrands seq) seq sst).eraseDups := by
  have hd' := (descr_iff _ _).mp hd
  rw [orbit_eq, nStrands_eq] at hfree ⊢
  rcases Rot.ids_cases r seq sst hd' with ⟨ids0, h0, hmem, hsome⟩ | ⟨_, c, hc, hci⟩
  · rw [h] at h0; cases h0
    rw [hfree _ hmem] at hsome; simp at hsome
  · rw [h] at hci; cases hci
    exact ⟨hc, rfl, rfl⟩

/-- **The canonical form is the lexicographically smallest rotation** when no rotation of the description is
    registered: it is one of the rotations and no rotation is smaller (domain names first, structure second). -/
theorem canon_mem_min (r : Reg CKey) (seq : List String) (sst : List Char) (ids : CplxIds)
    (hd : Descr seq sst) (h : complexIdentifiers r seq sst = .ok ids)
    (hfree : ∀ k ∈ orbit (nStrands seq) seq sst, r.findCanon k = none) :
    ids.canon ∈ orbit (nStrands seq) seq sst ∧ (∀ k ∈ orbit (nStrands seq) seq sst, ckeyLt k ids.canon = false) ∧
    (∀ k, k ∈ ids.keys ↔ k ∈ orbit (nStrands seq) seq sst) := by
  obtain ⟨h1, _, h3⟩ := ids_free r seq sst ids hd h hfree
  obtain ⟨m1, m2⟩ := Ord.minKey_spec _ _ h1
  refine ⟨m1, m2, ?_⟩
  intro k; rw [h3]; exact List.mem_eraseDups

/-- the identifiers never fail on a well-formed description -/
theorem identifiers_total (r : Reg CKey) (seq : List String) (sst : List Char) (hd : Descr seq sst) :
    ∃ ids, complexIdentifiers r seq sst = .ok ids := by
  have hd' := (descr_iff _ _).mp hd
  rcases Rot.ids_cases r seq sst hd' with ⟨ids0, h0, _, _⟩ | ⟨_, c, _, hci⟩
  · exact ⟨ids0, h0⟩
  · exact ⟨_, hci⟩

/-- a rotation of a well-formed description is a well-formed description with the same orbit (as a set) -/
theorem orbit_rotate (seq : List String) (sst : List Char) (hd : Descr seq sst) (r1 : List String × List Char)
    (h : rotateOnce seq sst = .ok r1) :
    Descr r1.1 r1.2 ∧ nStrands r1.1 = nStrands seq ∧
    ∀ k, k ∈ orbit (nStrands seq) r1.1 r1.2 ↔ k ∈ orbit (nStrands seq) seq sst := by
  have hd' := (descr_iff _ _).mp hd
  obtain ⟨nx, h1, h2, h3⟩ := Rot.descr_rotateOnce seq sst hd'
  rw [h] at h1; cases h1
  refine ⟨(descr_iff _ _).mpr h2, h3, ?_⟩
  intro k
  have hr : rotateN 1 seq sst = .ok r1 := by
    rw [Rot.rotateN_succ, h]; rfl
  exact Rot.orb_rotateN 1 seq sst hd' r1 hr k

/-- **the canonical form does not depend on which rotation was supplied** -/
theorem canon_rot_invariant (r : Reg CKey) (seq : List String) (sst : List Char) (hd : Descr seq sst)
    (r1 : List String × List Char) (h1 : rotateOnce seq sst = .ok r1) (ids ids1 : CplxIds)
    (hfree : ∀ k ∈ orbit (nStrands seq) seq sst, r.findCanon k = none)
    (h : complexIdentifiers r seq sst = .ok ids) (h' : complexIdentifiers r r1.1 r1.2 = .ok ids1) :
    ids1.canon = ids.canon := by
  obtain ⟨hd1, hn1, hset⟩ := orbit_rotate seq sst hd r1 h1
  have hfree1 : ∀ k ∈ orbit (nStrands r1.1) r1.1 r1.2, r.findCanon k = none := by
    intro k hk; rw [hn1] at hk; exact hfree k ((hset k).mp hk)
  obtain ⟨a1, a2, _⟩ := canon_mem_min r seq sst ids hd h hfree
  obtain ⟨b1, b2, _⟩ := canon_mem_min r r1.1 r1.2 ids1 hd1 h' hfree1
  rw [hn1] at b1 b2
  exact Ord.min_unique ckeyLt Ord.ckeyLt_sto _ _ _ _ hset ⟨b1, b2⟩ ⟨a1, a2⟩

/-- **equal canonical forms exactly for rotation-equivalent descriptions** (empty registry = pure function) -/
theorem canon_eq_iff (seq seq' : List String) (sst sst' : List Char) (hd : Descr seq sst) (hd' : Descr seq' sst')
    (ids ids' : CplxIds) (h : complexIdentifiers {} seq sst = .ok ids) (h' : complexIdentifiers {} seq' sst' = .ok ids') :
    ids.canon = ids'.canon ↔ (seq', sst') ∈ orbit (nStrands seq) seq sst := by
  have hd1 := (descr_iff _ _).mp hd
  have hd2 := (descr_iff _ _).mp hd'
  have hf : ∀ (k : CKey), ({} : Reg CKey).findCanon k = none := fun k => rfl
  obtain ⟨a1, a2, _⟩ := canon_mem_min {} seq sst ids hd h (fun k _ => hf k)
  obtain ⟨b1, b2, _⟩ := canon_mem_min {} seq' sst' ids' hd' h' (fun k _ => hf k)
  rw [orbit_eq, nStrands_eq] at a1 a2 b1 b2 ⊢
  constructor
  · intro hcc
    -- both descriptions are rotations of the common canonical form
    obtain ⟨i, _, hi⟩ := (Rot.mem_orb _ _ _ _).mp a1
    rw [← hcc] at b1
    obtain ⟨j, _, hj⟩ := (Rot.mem_orb _ _ _ _).mp b1
    obtain ⟨_, hy1, hdc, hn1⟩ := Rot.descr_rotateN i seq sst hd1
    rw [hi] at hy1; cases hy1
    obtain ⟨_, hy2, _, hn2⟩ := Rot.descr_rotateN j seq' sst' hd2
    rw [hj] at hy2; cases hy2
    have s1 := (Rot.orb_rotateN j seq' sst' hd2 ids.canon hj (seq', sst')).mpr (Rot.self_mem_orb seq' sst' hd2)
    rw [← hn2, hn1] at s1
    exact (Rot.orb_rotateN i seq sst hd1 ids.canon hi (seq', sst')).mp s1
  · intro hmem
    obtain ⟨k, _, hk⟩ := (Rot.mem_orb _ _ _ _).mp hmem
    obtain ⟨_, hy, _, hn⟩ := Rot.descr_rotateN k seq sst hd1
    rw [hk] at hy; cases hy
    have hset := Rot.orb_rotateN k seq sst hd1 (seq', sst') hk
    simp only at hn hset
    rw [hn] at b1 b2
    exact (Ord.min_unique ckeyLt Ord.ckeyLt_sto _ _ _ _ hset ⟨b1, b2⟩ ⟨a1, a2⟩).symm

/-- registry invariant for complexes: every live complex is registered under exactly the rotations of its
    canonical form -/
def KeysAreOrbit (r : Reg CKey) : Prop :=
  ∀ o ∈ r.objs, Descr o.canon.1 o.canon.2 ∧ ∀ k, k ∈ o.keys ↔ k ∈ orbit (nStrands o.canon.1) o.canon.1 o.canon.2

theorem complexRequest_seq (pfx : String) (r : Reg CKey) (fresh : Nat) (seq : List String) (sst : List Char)
    (name : Option String) (ids : CplxIds) (h : complexIdentifiers r seq sst = .ok ids) :
    complexRequest pfx r fresh { seq := some seq, sst := sst, name := name } =
      ((r.call (some ids.canon) (some (name.getD (pfx ++ toString r.autoId))) fresh ids.keys name.isNone).1,
       (r.call (some ids.canon) (some (name.getD (pfx ++ toString r.autoId))) fresh ids.keys name.isNone).2,
       some ids) := by
  unfold complexRequest
  simp only [h]
  rfl

/-- **requesting any rotation of a live complex leads to that same object** — returned when the name matches,
    refused with `existing` = that object for an unnamed request or a free other name — and never to a second one -/
theorem identifiers_existing (pfx : String) (r : Reg CKey) (hwf : C01.WF r) (hk : KeysAreOrbit r) (o : Obj CKey) (ho : o ∈ r.objs)
    (seq : List String) (sst : List Char) (hd : Descr seq sst) (hrot : (seq, sst) ∈ o.keys) (fresh : Nat) (name : Option String) :
    let out := (complexRequest pfx r fresh { seq := some seq, sst := sst, name := name })
    out.1 = r ∧
    (name = some o.name → out.2.1 = .ret o.id false) ∧
    ((name.getD (pfx ++ toString r.autoId)) ≠ o.name → r.findName (name.getD (pfx ++ toString r.autoId)) = none →
        out.2.1 = .singletonErr (some o.id)) := by
  have hd' := (descr_iff _ _).mp hd
  have hfc : r.findCanon (seq, sst) = some o := (C01.wf_lookup r hwf o ho).2.2.1 _ hrot
  obtain ⟨ids, hids, hcanon⟩ : ∃ ids, complexIdentifiers r seq sst = .ok ids ∧ ids.canon = (seq, sst) := by
    obtain ⟨m, hm⟩ : ∃ m, Rot.nStr seq = m + 1 :=
      ⟨Rot.nStr seq - 1, by have := Rot.nStr_pos seq hd'.nonempty; omega⟩
    rw [Rot.complexIdentifiers_eq r seq sst hd'.al.1, hm,
      Rot.loop_succ_reg r _ m 0 seq sst [] (by rw [hfc]; rfl)]
    exact ⟨_, rfl, rfl⟩
  intro out
  have hout : out = complexRequest pfx r fresh { seq := some seq, sst := sst, name := name } := rfl
  rw [complexRequest_seq pfx r fresh seq sst name ids hids, hcanon] at hout
  rw [hout]
  simp only
  refine ⟨?_, ?_, ?_⟩
  · rcases Reg.call_spec r (some (seq, sst)) (some (name.getD (pfx ++ toString r.autoId))) fresh ids.keys
        name.isNone with ⟨_, k, _, hk, _, hnone, _⟩ | ⟨h1, _⟩
    · cases hk; rw [hfc] at hnone; cases hnone
    · exact h1
  · intro hn
    subst hn
    simp only [Option.getD_some]
    rw [C01.consistent_returns_same r hwf o ho (seq, sst) hrot]
  · intro hne hfn
    obtain ⟨h1, _, _⟩ := (C01.conflict_raises_unchanged r hwf (name.getD (pfx ++ toString r.autoId)) (seq, sst)
      fresh ids.keys name.isNone).2.2 o hfn hfc
    rw [h1]

/-- registering a fresh object under free name and keys preserves the generic invariant -/
theorem wf_register {κ : Type} [DecidableEq κ] (r : Reg κ) (h : C01.WF r) (n : String) (k : κ) (fresh : Nat)
    (keys : List κ) (auto : Bool) (hfresh : ∀ o ∈ r.objs, o.id ≠ fresh) (hk : k ∈ keys)
    (hn : r.findName n = none) (hks : ∀ k' ∈ keys, r.findCanon k' = none) :
    C01.WF (r.register { id := fresh, name := n, canon := k, keys := keys } auto) := by
  have hc : r.call (some k) (some n) fresh keys auto =
      (r.register { id := fresh, name := n, canon := k, keys := keys } auto, .ret fresh true) := by
    simp [Reg.call, Reg.decide, hn, hks k hk]
  have := C01.wf_call r h (some k) (some n) fresh keys auto hfresh
    (by intro k' e; cases e; exact hk) (fun _ => hks)
  rw [hc] at this; exact this

/-- creating a complex preserves the invariant: the new object's keys are exactly its orbit -/
theorem keys_are_orbit_preserved (pfx : String) (r : Reg CKey) (hwf : C01.WF r) (hk : KeysAreOrbit r)
    (seq : List String) (sst : List Char) (hd : Descr seq sst) (fresh : Nat) (name : Option String)
    (hfresh : ∀ o ∈ r.objs, o.id ≠ fresh) :
    C01.WF (complexRequest pfx r fresh { seq := some seq, sst := sst, name := name }).1 ∧
    KeysAreOrbit (complexRequest pfx r fresh { seq := some seq, sst := sst, name := name }).1 := by
  have hd' := (descr_iff _ _).mp hd
  obtain ⟨ids, hids⟩ := identifiers_total r seq sst hd
  rw [complexRequest_seq pfx r fresh seq sst name ids hids]
  simp only
  rcases Reg.call_spec r (some ids.canon) (some (name.getD (pfx ++ toString r.autoId))) fresh ids.keys
      name.isNone with ⟨n, k, hn, hk', hfn, hfc, hcall⟩ | ⟨h1, _⟩
  · cases hn; cases hk'
    rw [hcall]
    simp only
    -- the loop was exhausted: nothing in the orbit is registered
    rcases Rot.ids_cases r seq sst hd' with ⟨ids0, h0, _, hsome⟩ | ⟨hfree, c, hc, hci⟩
    · rw [hids] at h0; cases h0
      rw [hfc] at hsome; cases hsome
    · rw [hids] at hci; cases hci
      obtain ⟨m1, _⟩ := Ord.minKey_spec _ _ hc
      have hkeys : ∀ k, k ∈ (Rot.orb (Rot.nStr seq) seq sst).eraseDups ↔ k ∈ Rot.orb (Rot.nStr seq) seq sst :=
        fun k => List.mem_eraseDups
      constructor
      · apply wf_register r hwf _ c fresh _ _ hfresh ((hkeys c).mpr m1) hfn
        intro k' hk''
        exact hfree k' ((hkeys k').mp hk'')
      · intro o ho
        simp only [Reg.register, List.mem_append, List.mem_singleton] at ho
        rcases ho with ho | rfl
        · exact hk o ho
        · simp only
          obtain ⟨i, _, hi⟩ := (Rot.mem_orb _ _ _ _).mp m1
          obtain ⟨_, hy, hdc, hnc⟩ := Rot.descr_rotateN i seq sst hd'
          rw [hi] at hy; cases hy
          refine ⟨(descr_iff _ _).mpr hdc, ?_⟩
          intro k
          rw [hkeys k, orbit_eq, nStrands_eq, hnc]
          exact (Rot.orb_rotateN i seq sst hd' c hi k).symm
  · rw [h1]; exact ⟨hwf, hk⟩

/-- **turns**: rotating the canonical form by `turns` strands yields exactly the supplied description -/
theorem turns_correct (r : Reg CKey) (seq : List String) (sst : List Char) (ids : CplxIds) (hd : Descr seq sst)
    (h : complexIdentifiers r seq sst = .ok ids)
    (hfree : ∀ k ∈ orbit (nStrands seq) seq sst, r.findCanon k = none) :
    ids.turns < nStrands seq ∧ rotateN ids.turns ids.canon.1 ids.canon.2 = .ok (seq, sst) := by
  have hd' := (descr_iff _ _).mp hd
  obtain ⟨h1, h2, _⟩ := ids_free r seq sst ids hd h hfree
  obtain ⟨m1, _⟩ := Ord.minKey_spec _ _ h1
  rw [h2]
  exact Rot.turns_spec seq sst hd' ids.canon m1

/-- non-vacuity: two strands `a a` and `a` — the canonical form is the rotation that starts with the shorter
    prefix-smaller strand; it is the same for both presentations -/
example : (complexIdentifiers ({} : Reg CKey) ["a", "a", "+", "a"] ['(', '.', '+', ')']).toOption.map (·.canon) =
          (complexIdentifiers ({} : Reg CKey) ["a", "+", "a", "a"] ['(', '+', ')', '.']).toOption.map (·.canon) := by decide

end Dsd.C02
