/-
`DomainS.identifiers` / the whole request `DomainS(…)` AS WRITTEN against the model, continued (Props/PyDomain2, PyDomain3):
the last open case of (c) and the ingredients of (d).  NOT proved yet: `Related` for `requestPy` by induction on fuel (it needs the
freshness of `tmp` - `∀ o ∈ r.objs, o.id ≠ tmp` - as a precondition of `Related`, which the branch theorems do not carry yet), hence
`requestPy = DomFull.domainRequestFull` up to `RepX` and the transfers of `complement_lengths_agree` / `conflict_raises`.
-/
import DsdVerif.Lemmas.PyDomainEqReq3

namespace Dsd.PyDomain4
open Dsd Dsd.Gen Dsd.PyDomainEq Dsd.PySingletonL

/-- (c), last case: a dtype given together with a CONSISTENT length - code and model proceed exactly as for the same request without
    dtype, for every name (also None), prefix and `request` / `nested` -/
theorem py_identifiers_dtype_consistent (request : Py.Dom.Req → Py.Dom.M Nat) (nested : Reg DKey → DomReq → Reg DKey × Out) (tmp : Nat)
    (s : Py.Dom.Cls) (r : Reg DKey) (cfg : DomCfg) (name : Option String) (l : Nat) (pfx : Option String) :
    ((("short" == "short") = decide (l ≤ cfg.cutoff)) →
      (py_DomainS_identifiers request tmp cfg.cutoff cfg.shortLen cfg.longLen cfg.prefix_ name (some l) pfx (some "short")).exec s =
        (py_DomainS_identifiers request tmp cfg.cutoff cfg.shortLen cfg.longLen cfg.prefix_ name (some l) pfx none).exec s ∧
      DomFull.identifiers nested cfg r { name := name, length := some l, prefix_ := pfx, dtype := some .short } =
        DomFull.identifiers nested cfg r { name := name, length := some l, prefix_ := pfx }) ∧
    ((("long" == "short") = decide (l ≤ cfg.cutoff)) →
      (py_DomainS_identifiers request tmp cfg.cutoff cfg.shortLen cfg.longLen cfg.prefix_ name (some l) pfx (some "long")).exec s =
        (py_DomainS_identifiers request tmp cfg.cutoff cfg.shortLen cfg.longLen cfg.prefix_ name (some l) pfx none).exec s ∧
      DomFull.identifiers nested cfg r { name := name, length := some l, prefix_ := pfx, dtype := some .long } =
        DomFull.identifiers nested cfg r { name := name, length := some l, prefix_ := pfx }) := by
  constructor
  · intro hc
    exact ⟨identifiers_dtype_consistent_py request tmp _ _ _ _ name l pfx "short" (Or.inl rfl) hc s,
      identifiers_dtype_consistent_model nested cfg r name l pfx .short (by rw [← hc]; rfl)⟩
  · intro hc
    exact ⟨identifiers_dtype_consistent_py request tmp _ _ _ _ name l pfx "long" (Or.inr rfl) hc s,
      identifiers_dtype_consistent_model nested cfg r name l pfx .long (by rw [← hc]; rfl)⟩

/-- (d) the request outside the driver (Spec/PyDomainRequest.lean) is the driver's `requestPy` that the stream runs -/
theorem py_requestPy_eq_driver (cutoff sh lo : Nat) (pfx : String) (fuel fresh tmp : Nat) (q : Py.Dom.Req) :
    PyDomainRequest.requestPy cutoff sh lo pfx fuel fresh tmp q = DriverDomain.requestPy cutoff sh lo pfx fuel fresh tmp q :=
  requestPy_eq_driver cutoff sh lo pfx fuel fresh tmp q

/-- (d) the exact representation gives the look-up representation of Props/PySingleton -/
theorem py_repX_rep (s : Py.Dom.Cls) (r : Reg DKey) (h : RepX s r) : Rep s.reg r := repX_rep s r h

/-- (d) the translated `Singleton.__call__` inside the request (zoomed onto the two dictionaries) IS `Reg.call` for a non-empty name:
    same result / exception, and the class afterwards is the class before, with one new entry in each dictionary iff an object was
    created (`regAfter`) -/
theorem py_zoom_call (s : Py.Dom.Cls) (r : Reg DKey) (h : RepX s r) (canon : Option DKey) (name : String) (fresh : Nat) (auto : Bool)
    (hne : name ≠ "") :
    (PyDomainRequest.zoom (py_Singleton_call canon name fresh [])).exec s =
      (toPy (r.call canon (some name) fresh canon.toList auto).2,
        { s with reg := regAfter s canon name fresh (r.call canon (some name) fresh canon.toList auto).2 }) :=
  zoom_call s r h canon name fresh auto hne

/-- (d) creation: the new entries, the attributes `__init__` stores and the `ID` count are `Reg.register` -/
theorem py_register_eq (s : Py.Dom.Cls) (r : Reg DKey) (h : RepX s r) (fresh : Nat) (name : String) (k : DKey) (auto : Bool)
    (hn : r.findName name = none) (hc : r.findCanon k = none) :
    RepX { reg := { _instanceNames := Py.dictSet s.reg._instanceNames name fresh,
                    _instanceCanon := @Py.dictSet DKey Nat instBEqOfDecidableEq s.reg._instanceCanon k fresh },
           ID := if auto then s.ID + 1 else s.ID,
           heap := s.heap ++ [(fresh, ({ _name := name, _length := some k.2 } : Py.Dom.Obj))] }
      (r.register { id := fresh, name := name, canon := k, keys := [k] } auto) :=
  repX_register s r h fresh name k auto hn hc

#print axioms py_identifiers_dtype_consistent
#print axioms py_requestPy_eq_driver
#print axioms py_repX_rep
#print axioms py_zoom_call
#print axioms py_register_eq

end Dsd.PyDomain4
