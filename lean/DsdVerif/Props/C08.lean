/- C08 — theorems are being added; see harness/props/c08.py THEOREMS for the audited list. -/
import DsdVerif.Model.Complex
