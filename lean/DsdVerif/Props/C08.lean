/- C08 — loop indices, connectivity and exterior loops: theorems are in Props/C08Loop.lean. -/
import DsdVerif.Props.C08Loop
import DsdVerif.Props.C08Obj
