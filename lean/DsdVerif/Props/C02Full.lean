/-
C02 (and C01 for complexes / strands), closing the model gap of `complexRequest` / `strandRequest`: the full models
(Model/ComplexFull.lean, Model/SingletonFull.lean) follow `ComplexS.identifiers`, `Singleton.__call__` and
`ComplexS.__init__` statement by statement — a genuine dictionary `cdict`, `for … break … else`, `sorted(…)[0]`,
`rcplxs = cdict.keys()` registered by `__init__`, truthiness tests in `__call__`.

RESULT.  `ComplexS.identifiers` of the full model equals `complexIdentifiers` for EVERY registry and EVERY input
(`CplxFullL.identifiers_eq`: no invariant needed — mismatched lengths, no strands, empty strands, rotationally
symmetric complexes, failing rotations included), and the requests are equal for every input except an explicitly
given EMPTY name, which `Singleton.__call__` treats as "no name" (FINDING 1).
-/
import DsdVerif.Lemmas.ComplexFull

namespace Dsd.C02
open Dsd Dsd.CplxFull Dsd.CplxFullL

/-! ### refinement -/

theorem autoName_ne (p : String) (n : Nat) : p ++ toString n ≠ "" := by
  intro e
  have h1 := congrArg String.toList e
  rw [String.toList_append] at h1
  have h2 : (toString n).toList = [] := (List.append_eq_nil_iff.mp h1).2
  have h3 : toString n ≠ "" := Nat.repr_ne_empty
  exact h3 (String.toList_inj.mp h2)


/-- **`ComplexS(sequence, structure, name, prefix)`: the full model refines to `complexRequest`** — same outcome,
    same registry (objects with the same keys in the same order, same `ID`), same identifiers — for every registry
    (no invariant needed) and every request whose name is not the empty string. -/
theorem complexRequestFull_eq (pfx : String) (r : Reg CKey) (fresh : Nat) (q : CplxReq) (hname : q.name ≠ some "") :
    complexRequestFull pfx r fresh q = complexRequest pfx r fresh q := by
  unfold complexRequestFull complexRequest
  cases hq : q.seq with
  | none =>
    unfold CplxFull.identifiers
    rw [hq]
    cases hn : q.name with
    | none => rfl
    | some n =>
      have hne : n ≠ "" := fun e => hname (by rw [hn, e])
      simp only [Option.map_none, Option.getD_none]
      rw [Reg.callFull_eq r none n fresh [] [] _ hne (fun k e => by cases e)]
      rfl
  | some sequence =>
    rw [identifiers_eq pfx r q sequence hq]
    cases hids : complexIdentifiers r sequence q.sst with
    | error e => simp only [hids]
    | ok ids =>
      simp only [hids, Option.map_some, Option.getD_some]
      have hne : q.name.getD ((q.prefix_.getD pfx) ++ toString r.autoId) ≠ "" := by
        cases hn : q.name with
        | some n => exact fun e => hname (by rw [hn]; exact congrArg some e)
        | none =>
          simp only [Option.getD_none]
          intro e
          have h1 := congrArg String.toList e
          rw [String.toList_append] at h1
          have h2 : (toString r.autoId).toList = [] := (List.append_eq_nil_iff.mp h1).2
          have h3 : toString r.autoId ≠ "" := Nat.repr_ne_empty
          exact h3 (String.toList_inj.mp h2)
      rw [Reg.callFull_eq r (some ids.canon) _ fresh ids.keys ids.keys _ hne]
      intro k hk hfree
      cases hk
      rcases RegL.complexIdentifiers_spec r sequence q.sst ids hids with ⟨hmem, _⟩ | hreg
      · simp [hmem]
      · rw [hfree] at hreg; cases hreg

/-- **`StrandS(sequence, name, prefix)`** -/
theorem strandRequestFull_eq (pfx : String) (r : Reg CKey) (fresh : Nat) (seq : Option (List String))
    (name prefix_ : Option String) (hname : name ≠ some "") :
    strandRequestFull pfx r fresh seq name prefix_ = strandRequest (prefix_.getD pfx) r fresh seq name := by
  unfold strandRequestFull strandRequest
  cases seq with
  | none =>
    cases hn : name with
    | none => rfl
    | some n =>
      have hne : n ≠ "" := fun e => hname (by rw [hn, e])
      exact Reg.callFull_eq r none n fresh [] [] _ hne (fun k e => by cases e)
  | some sequence =>
    simp only
    split
    · rfl
    · have hcanon : (List.range sequence.length).map (fun _ => '*') = sequence.map (fun _ => '*') := by
        simp [List.map_const']
      rw [hcanon]
      cases hn : name with
      | some n =>
        have hne : n ≠ "" := fun e => hname (by rw [hn, e])
        exact Reg.callFull_eq r _ _ fresh [] _ _ hne (fun k hk _ => by cases hk; simp)
      | none =>
        cases prefix_ <;> exact Reg.callFull_eq r _ _ fresh [] _ _ (autoName_ne _ _) (fun k hk _ => by cases hk; simp)

/-! ### closed examples -/

def content (r : Reg CKey) : List (Nat × String × CKey × List CKey) × Nat :=
  (r.objs.map (fun o => (o.id, o.name, o.canon, o.keys)), r.autoId)

namespace Ex

/-- `x = ComplexS(['a','+','b'], '(+)')`-like: two strands; both rotations are registered -/
def rX : Reg CKey := (complexRequestFull "c" {} 0 { seq := some ["b", "+", "a"], sst := ['(', '+', ')'], name := some "x" }).1

example : content rX = ([(0, "x", (["a", "+", "b"], ['(', '+', ')']),
    [(["b", "+", "a"], ['(', '+', ')']), (["a", "+", "b"], ['(', '+', ')'])])], 1) := rfl

/-- the other rotation is the same object (found at `e = 0`: `break`); an unnamed request for it is refused with
    `existing`; a new complex gets the automatic name and consumes `ID` -/
example :
    (complexRequestFull "c" rX 1 { seq := some ["a", "+", "b"], sst := ['(', '+', ')'], name := some "x" }).2.1 = .ret 0 false ∧
    (complexRequestFull "c" rX 1 { seq := some ["a", "+", "b"], sst := ['(', '+', ')'] }).2.1 = .singletonErr (some 0) ∧
    (complexRequestFull "c" rX 1 { seq := some ["a"], sst := ['.'] }).2.1 = .ret 1 true ∧
    (complexRequestFull "c" rX 1 { seq := some ["a"], sst := ['.'] }).1.autoId = 2 ∧
    (complexRequestFull "c" rX 1 { seq := none, name := some "x" }).2.1 = .ret 0 false := by decide

/-- a rotationally symmetric complex: the dictionary keeps ONE key with the LAST value, `turns = wrap(-1, 2) = 1` -/
example : (complexRequestFull "c" {} 0 { seq := some ["a", "+", "a"], sst := ['.', '+', '.'] }).2.2 =
    some { canon := (["a", "+", "a"], ['.', '+', '.']), turns := 1, keys := [(["a", "+", "a"], ['.', '+', '.'])] } ∧
    (complexRequest "c" {} 0 { seq := some ["a", "+", "a"], sst := ['.', '+', '.'] }).2.2 =
    some { canon := (["a", "+", "a"], ['.', '+', '.']), turns := 1, keys := [(["a", "+", "a"], ['.', '+', '.'])] } :=
  ⟨rfl, rfl⟩

/-- the error paths: mismatched lengths, no strand at all, an unmatched `)` (the rotation raises), no arguments -/
example :
    (complexRequestFull "c" {} 0 { seq := some ["a", "b"], sst := ['.'] }).2.1 = .objectInitErr ∧
    (complexRequestFull "c" {} 0 { seq := some ["+"], sst := ['+'] }).2.1 = .objectInitErr ∧
    (complexRequestFull "c" {} 0 { seq := some ["a", "+", "b"], sst := [')', '+', '.'] }).2.1 = .ssErr ∧
    (complexRequestFull "c" {} 0 { seq := none }).2.1 = .objectInitErr := by decide

/-! ### FINDINGS -/

/-- FINDING 1 (an explicitly given EMPTY name).  `Singleton.__call__` tests `if name and canon:` — the empty string is
    falsy, so `ComplexS(seq, sst, name = '')` is a look-up by canonical form: for a new complex it raises
    SingletonError ("canonical form only"), for a live one it returns that object whatever its name.
    `complexRequest` (passing `some ""` to `Reg.call`) creates a complex named `""`, resp. refuses with `existing`. -/
theorem finding_empty_name :
    (complexRequestFull "c" {} 0 { seq := some ["a"], sst := ['.'], name := some "" }).2.1 = .singletonErr none ∧
    (complexRequest "c" {} 0 { seq := some ["a"], sst := ['.'], name := some "" }).2.1 = .ret 0 true ∧
    (complexRequestFull "c" rX 1 { seq := some ["a", "+", "b"], sst := ['(', '+', ')'], name := some "" }).2.1 = .ret 0 false ∧
    (complexRequest "c" rX 1 { seq := some ["a", "+", "b"], sst := ['(', '+', ')'], name := some "" }).2.1 =
      .singletonErr (some 0) := by decide

/-- OBSERVATION (both models agree; outside the reading of C02, which assumes balanced structures).  Neither
    `identifiers` nor `__init__` validates the structure: an unmatched `(` passes `rotate_complex_once` unnoticed and
    the complex `a( + b` is created. -/
theorem unbalanced_structure_accepted :
    (complexRequestFull "c" {} 0 { seq := some ["a", "+", "b"], sst := ['(', '+', '.'] }).2.1 = .ret 0 true ∧
    (complexRequest "c" {} 0 { seq := some ["a", "+", "b"], sst := ['(', '+', '.'] }).2.1 = .ret 0 true := by decide

/-- … the same for strands -/
theorem finding_empty_name_strand :
    (strandRequestFull "s" {} 0 (some ["a"]) (some "") none).2 = .singletonErr none ∧
    (strandRequest "s" {} 0 (some ["a"]) (some "")).2 = .ret 0 true := by decide

/-- OBSERVATION (both models agree; outside the reading of C02, which assumes non-empty strands).  The number of loop
    iterations is the number of NON-EMPTY strands (`make_strand_table` drops empty ones) while a rotation moves one
    `+`-delimited strand: with empty strands not every rotation is visited.  `a + + + b` registers 2 of its 4
    rotations; the request for the rotation `+ b + a +` of the same complex visits the other two, finds nothing, and
    a SECOND object for the same complex is created. -/
theorem empty_strands_two_objects :
    let r1 := (complexRequestFull "c" {} 0
      { seq := some ["a", "+", "+", "+", "b"], sst := ['.', '+', '+', '+', '.'], name := some "e" }).1
    (complexRequestFull "c" r1 1
      { seq := some ["+", "b", "+", "a", "+"], sst := ['+', '.', '+', '.', '+'], name := some "f" }).2.1 = .ret 1 true ∧
    (complexRequest "c" r1 1
      { seq := some ["+", "b", "+", "a", "+"], sst := ['+', '.', '+', '.', '+'], name := some "f" }).2.1 = .ret 1 true ∧
    rotateN 2 ["a", "+", "+", "+", "b"] ['.', '+', '+', '+', '.'] =
      .ok (["+", "b", "+", "a", "+"], ['+', '.', '+', '.', '+']) := by decide

end Ex

end Dsd.C02
