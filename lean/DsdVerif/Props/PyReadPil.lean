/-
The top-level `read_pil` of dsdobjects/objectio.py AS WRITTEN (statement-level translation Gen/PyReadPil.lean, translator/pyreaderfn2.py),
with the parsers, `read_pil_line`, `~obj` and `reverse_wc_complement` as parameters over an opaque object world.

* `py_ignore_skips`: statements whose keyword is in `ignore` are not interpreted at all (`read_pil_line` is not called for them): the loop over
  the document is the loop over the remaining statements (the counterpart of `C14.ignore_skips` for the code).
* `py_iteration_closed_form`: one iteration is `read_pil_line(line)` followed by `file`: the outcome is filed by the FIRST of the tests Domain,
  Strand, Complex, Macrostate, Reaction that its class passes (`py_strand_before_complex`: an object of a subclass of both the Strand and
  the Complex slot - StrandS is a subclass of ComplexS - is filed as a strand, only), under its name with dict semantics (`Py.dictSet`: a later
  object of the same name replaces the earlier entry, which keeps its place), reactions into `con_reactions` iff `rtype == 'condensed'`
  else `det_reactions` (`py_reaction_split`), a raw line into `other` (`py_raw_to_other`), an object of none of the classes fails the assert.
* `py_exception_propagates`: if `read_pil_line` raises, the iteration raises the same exception (nothing is returned).
Not closed: the Domain branch (`fileDomain` is the generated iteration on a known outcome); the equality with `readDoc` of Model/Reader.lean
(the model threads a World and reads complements from it) is NOT stated.
-/
import DsdVerif.Lemmas.PyReadPil

namespace Dsd.PyReadPil
open Dsd Dsd.PP Dsd.Gen Dsd.PyReadPilL

variable {ω : Type}

theorem py_ignored_not_interpreted (env : ReadPil.Env ω) (data : String) (is_file : Bool) (ignore : Option (List String))
    (v : read_pil.Vars) (line : List Tree) (h : ignored ignore line = true) :
    read_pil.loop1 env data is_file ignore v line = pure v :=
  loop_ignored env data is_file ignore v line h

theorem py_ignore_skips (env : ReadPil.Env ω) (data : String) (is_file : Bool) (ignore : Option (List String)) (lines : List (List Tree))
    (v : read_pil.Vars) :
    List.foldlM (read_pil.loop1 env data is_file ignore) v lines =
      List.foldlM (read_pil.loop1 env data is_file ignore) v (lines.filter (fun l => !ignored ignore l)) :=
  fold_ignore env data is_file ignore lines v

theorem py_iteration_closed_form (env : ReadPil.Env ω) (D S C M R : Py.ClassId) (hg : Configured env D S C M R) (data : String)
    (is_file : Bool) (v : read_pil.Vars) (line : List Tree) :
    read_pil.loop1 env data is_file none v line = env.read_pil_line line >>= file env D S C M R v :=
  loop_interpreted env D S C M R hg data is_file v line

/-- the ORDER of the tests: a strand object (class below the Strand slot AND below the Complex slot) goes to `strands`, not to `complexes` -/
theorem py_strand_before_complex (env : ReadPil.Env ω) (D S C M R : Py.ClassId) (v : read_pil.Vars) (x : Py.Obj)
    (hD : env.sub x.cls D = false) (hS : env.sub x.cls S = true) (_hC : env.sub x.cls C = true) :
    file env D S C M R v (.obj x) =
      pure { v with obj := .obj x, out_strands := Py.dictSet v.out_strands x.name (.obj x) } := by
  simp [file, hD, hS]

theorem py_reaction_split (env : ReadPil.Env ω) (D S C M R : Py.ClassId) (v : read_pil.Vars) (x : Py.Obj)
    (hD : env.sub x.cls D = false) (hS : env.sub x.cls S = false) (hC : env.sub x.cls C = false) (hM : env.sub x.cls M = false)
    (hR : env.sub x.cls R = true) :
    file env D S C M R v (.obj x) =
      pure (if x.rtype = "condensed" then { v with obj := .obj x, out_con_reactions := Py.setAdd v.out_con_reactions (.obj x) }
            else { v with obj := .obj x, out_det_reactions := Py.setAdd v.out_det_reactions (.obj x) }) := by
  by_cases hc : x.rtype = "condensed" <;> simp [file, hD, hS, hC, hM, hR, hc]

theorem py_raw_to_other (env : ReadPil.Env ω) (D S C M R : Py.ClassId) (v : read_pil.Vars) (l : List Tree) :
    file env D S C M R v (.raw l) = pure { v with obj := .raw l, out_other := v.out_other ++ [.raw l] } := rfl

theorem py_exception_propagates (env : ReadPil.Env ω) (D S C M R : Py.ClassId) (hg : Configured env D S C M R) (data : String)
    (is_file : Bool) (v : read_pil.Vars) (line : List Tree) (w : ω) (e : Err) (h : (env.read_pil_line line).run w = .error e) :
    (read_pil.loop1 env data is_file none v line).run w = .error e := by
  rw [py_iteration_closed_form env D S C M R hg]
  simp [StateT.run_bind, h]
  rfl

end Dsd.PyReadPil

#print axioms Dsd.PyReadPil.py_ignored_not_interpreted
#print axioms Dsd.PyReadPil.py_ignore_skips
#print axioms Dsd.PyReadPil.py_iteration_closed_form
#print axioms Dsd.PyReadPil.py_strand_before_complex
#print axioms Dsd.PyReadPil.py_reaction_split
#print axioms Dsd.PyReadPil.py_raw_to_other
#print axioms Dsd.PyReadPil.py_exception_propagates
