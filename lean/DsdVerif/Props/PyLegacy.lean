/-
The methods of the legacy class `DSD_Complex` AS WRITTEN in dsdobjects/core/deprecated.py (translated statement by statement by
translator/pylegacy.py into Gen/PyLegacy.lean; the object is the state of `ExceptT Err (StateM DSD_Complex.Self)`) are the
functions of the hand-written model `Lg.LObj` (Model/LegacyFull.lean) - for EVERY object state, results, exception classes
(`errOf`: the model's `LErr` as the translator names the classes) and the object afterwards.

  `py_rotate_once_eq`          rotate_once (both bracket loops with the Python-list stack, item assignments, the reset of the six
                               cached attributes; the sequence stays rotated when the loops raise) = `LObj.rotateOnce`
  `py_size_eq`, `py_strand_length_eq`, `py_sequence_eq`, `py_structure_eq`, `py_lol_sequence_eq`, `py_get_domain_eq`,
  `py_pair_table_eq`, `py_get_paired_loc_eq`    the views with their lazily filled caches = the model's views
  `py_every_state`             every state of the translated object is `ofL` of a model object (the statements quantify over all states)

  `py_loop_index_eq`, `py_get_loop_index_eq`, `py_is_connected_eq`   the loop-index views (with the `try … except
                               SecondaryStructureError: return False` of `is_connected`) = the model's, for every object whose
                               cached pair table - if truthy - is a table `make_pair_table` returns (`PtOk`).  `PtOk` holds for new
                               objects and is kept by every modelled method (`ptOk_new`, `ptOk_rotateOnce`, `ptOk_size`, …), so it
                               holds along every op sequence (`py_ptOk_run`); WITHOUT it the statement is false
                               (`py_loop_index_needs_ptOk`: on an arbitrary cached table the source's `make_loop_index` and the
                               model's totalised one differ).

For the other methods no hypothesis is needed: where the model is total and Python raises (`tmpstruct[i] = ")"` with `i` out of range) the raise is
unreachable (`bracketLoop_lt`: a bracket loop only stacks indices it has read).  A locus is a pair of non-negative ints (typing).

Transferred from Props/C20Full.lean (now statements about the code as written):

  `py_legacy_rotate_once_obj`        on equal lengths, where the model `rotateOnce` of the CURRENT API succeeds, the translated legacy
                                     method succeeds and leaves the rotated representation with the six caches reset
  `py_legacy_rotate_once_eq_current` the same against the TRANSLATED current function `py_rotate_complex_once` (complex_utils.py):
                                     two pieces of source text, no model in the statement
  `py_legacy_rotate_once_raises`     where the current function raises, the legacy method raises DSDObjectsError (or the same fault)
                                     and the sequence is already rotated
  `py_strand_length_after_rotate_once`
                                     (from `legacy_views_after_rotate_once`) the translated `strand_length` of the turned object
                                     is the current API's answer for the turned representation; ALL conjuncts of that theorem
                                     are transferred in Props/PyLegacy2.lean (`py_views_after_rotate_once`)
-/
import DsdVerif.Lemmas.PyLegacyRotate
import DsdVerif.Lemmas.PyLegacyLoop
import DsdVerif.Props.C20Full
import DsdVerif.Props.C20FullViews
import DsdVerif.Props.PyFuncs

namespace Dsd.PyLegacy
open Dsd Dsd.Gen Dsd.Lg Dsd.LgL

/-! ### equality with the model, every state -/

theorem py_every_state (s : DSD_Complex.Self) (base : LObj) : ofL (toL base s) = s := ofL_toL base s

/-- **`rotate_once` as written is the model's `rotateOnce`** -/
theorem py_rotate_once_eq (o : LObj) : (py_DSD_Complex_rotate_once).exec (ofL o) = rotAns o.rotateOnce := exec_rotate_once o

theorem py_size_eq (o : LObj) : (py_DSD_Complex_size).exec (ofL o) = okAns o.size := exec_size o

theorem py_strand_length_eq (o : LObj) (pos : Nat) :
    (py_DSD_Complex_strand_length pos).exec (ofL o) = exAns (o.strandLength pos) := exec_strand_length o pos

theorem py_sequence_eq (o : LObj) : (py_DSD_Complex_sequence).exec (ofL o) = (.ok o.seq, ofL o) := exec_sequence o

theorem py_structure_eq (o : LObj) : (py_DSD_Complex_structure).exec (ofL o) = (.ok o.sst, ofL o) := exec_structure o

theorem py_lol_sequence_eq (o : LObj) : (py_DSD_Complex_lol_sequence).exec (ofL o) = (.ok o.lolSequenceView, ofL o) :=
  exec_lol_sequence o

theorem py_get_domain_eq (o : LObj) (loc : Locus) :
    (py_DSD_Complex_get_domain loc).exec (ofL o) = exAns (o.getDomain loc) := exec_get_domain o loc

theorem py_pair_table_eq (o : LObj) : (py_DSD_Complex_pair_table).exec (ofL o) = exAns (o, o.pairTableView) := exec_pair_table o

theorem py_get_paired_loc_eq (o : LObj) (loc : Locus) :
    (py_DSD_Complex_get_paired_loc loc).exec (ofL o) = exAns (o.getPairedLoc ((loc.1 : Int), (loc.2 : Int))) :=
  exec_get_paired_loc o loc

/-! ### the loop-index views, under the invariant `PtOk` -/

theorem py_loop_index_eq (o : LObj) (h : PtOk o) : (py_DSD_Complex_loop_index).exec (ofL o) = exAns o.loopIndexView :=
  exec_loop_index o h

theorem py_get_loop_index_eq (o : LObj) (h : PtOk o) (loc : Locus) :
    (py_DSD_Complex_get_loop_index loc).exec (ofL o) = exAns (o.getLoopIndex loc) := exec_get_loop_index o h loc

theorem py_is_connected_eq (o : LObj) (h : PtOk o) : (py_DSD_Complex_is_connected).exec (ofL o) = exAns o.isConnected :=
  exec_is_connected o h

/-- the ops of the model whose translations are proved above -/
inductive Op
  | rot | size | strandLength (k : Nat) | getDomain (l : Locus) | getPairedLoc (l : Locus) | loopIndex | getLoopIndex (l : Locus)
  | isConnected

def Op.run (o : LObj) : Op → LObj
  | .rot => o.rotateOnce.1
  | .size => o.size.1
  | .strandLength k => (o.strandLength k).1
  | .getDomain l => (o.getDomain l).1
  | .getPairedLoc l => (o.getPairedLoc ((l.1 : Int), (l.2 : Int))).1
  | .loopIndex => o.loopIndexView.1
  | .getLoopIndex l => (o.getLoopIndex l).1
  | .isConnected => o.isConnected.1

/-- `PtOk` holds after every sequence of these ops on a new object (so the hypothesis of the three theorems above is met along
    every history the stream plays) -/
theorem py_ptOk_run (id : Nat) (name : String) (seq : List String) (sst : List Char) (mc : Bool) (ops : List Op) :
    PtOk (ops.foldl Op.run { id := id, name := name, seq := seq, sst := sst, memorycheck := mc }) := by
  suffices ∀ (ops : List Op) (o : LObj), PtOk o → PtOk (ops.foldl Op.run o) from this ops _ (ptOk_new id name seq sst mc)
  intro ops
  induction ops with
  | nil => intro o h; exact h
  | cons op ops ih =>
    intro o h
    refine ih _ ?_
    cases op
    · exact ptOk_rotateOnce o h
    · exact ptOk_size o h
    · exact ptOk_strandLength o h _
    · exact ptOk_getDomain o h _
    · exact ptOk_getPairedLoc o h _
    · exact ptOk_loopIndexView o h
    · exact ptOk_getLoopIndex o h _
    · exact ptOk_isConnected o h

/-- the hypothesis cannot be dropped: with a cached table that no `make_pair_table` call returns (position 1 paired with the
    EARLIER position 0, which is unpaired: a closing bracket without its opening one) the source's `make_loop_index` pops its
    empty stack (IndexError) where the totalised hand model answers `([[0, 0]], [0])` -/
theorem py_loop_index_needs_ptOk :
    ∃ o : LObj, (py_DSD_Complex_loop_index).exec (ofL o) ≠ exAns o.loopIndexView := by
  refine ⟨{ id := 0, name := "", seq := ["a"], sst := ['.'], pairTable := some [[none, some (0, 0)]] }, ?_⟩
  decide

/-- what `__init__` assigns is the model's new instance -/
theorem py_init_eq (id : Nat) (name : String) (seq : List String) (sst : List Char) (mc : Bool) :
    py_DSD_Complex_init seq sst = ofL { id := id, name := name, seq := seq, sst := sst, memorycheck := mc } := rfl

/-! ### transferred: `legacy_rotate_once_eq` -/

/-- the method on the instance, in terms of the current API's `rotateOnce` (C20F.legacy_rotate_once_obj) -/
theorem py_legacy_rotate_once_obj (o : LObj) (h : o.seq.length = o.sst.length) (nx : List String × List Char)
    (hrot : Dsd.rotateOnce o.seq o.sst = .ok nx) :
    (py_DSD_Complex_rotate_once).exec (ofL o) = (.ok (), ofL (rotated o nx)) := by
  rw [py_rotate_once_eq, C20F.legacy_rotate_once_obj o h nx hrot]; rfl

/-- **the legacy method and the current function, both as written in the source**: where `rotate_complex_once`
    (complex_utils.py, translated) returns a pair, `DSD_Complex.rotate_once` (deprecated.py, translated) succeeds on the new object,
    leaves exactly that pair in `_sequence` / `_structure`, and all six caches are `None` -/
theorem py_legacy_rotate_once_eq_current (seq : List String) (sst : List Char) (h : seq.length = sst.length)
    (nx : List String × List Char) (hrot : py_rotate_complex_once seq sst = .ok nx) :
    ∃ s', (py_DSD_Complex_rotate_once).exec (py_DSD_Complex_init seq sst) = (.ok (), s') ∧
      s'._sequence = nx.1 ∧ s'._structure = nx.2 ∧ s'._pair_table = none ∧ s'._loop_index = none ∧ s'._lol_sequence = none ∧
      s'._strand_lengths = none ∧ s'._exterior_domains = none ∧ s'._enclosed_domains = none := by
  rw [PyFuncs.py_rotate_complex_once_eq seq sst h] at hrot
  refine ⟨_, py_legacy_rotate_once_obj { id := 0, name := "", seq := seq, sst := sst } h nx hrot, rfl, rfl, rfl, rfl, rfl, rfl, rfl, rfl⟩

/-- where the current function raises, the legacy method raises too - DSDObjectsError where the current one raises
    SecondaryStructureError - and `_sequence` is already rotated (C20F.legacy_rotate_once_eq_len) -/
theorem py_legacy_rotate_once_raises (o : LObj) (h : o.seq.length = o.sst.length) (e : Err)
    (hrot : Dsd.rotateOnce o.seq o.sst = .error e) :
    ∃ e', ((py_DSD_Complex_rotate_once).exec (ofL o)).1 = .error e' ∧
      (e = .secondaryStructure → e' = .fault "DSDObjectsError") ∧
      ((py_DSD_Complex_rotate_once).exec (ofL o)).2 = { ofL o with _sequence := (rotateOnceLists o.seq o.sst).1 } := by
  have hc := C20F.legacy_rotate_once_eq_len o.seq o.sst h
  rw [hrot] at hc
  rw [py_rotate_once_eq]
  unfold LObj.rotateOnce rotAns
  rcases hl : rotateOnceLists o.seq o.sst with ⟨seq', r⟩
  rw [hl] at hc
  cases r with
  | ok t => simp [toCurrent] at hc
  | error le =>
    refine ⟨errOf le, rfl, ?_, rfl⟩
    intro he
    cases le <;> simp [toCurrent, he] at hc <;> rfl

/-! ### transferred: `legacy_views_after_rotate_once` (the views proved above) -/

/-- the answer of a translated view in the vocabulary of the current API -/
def natAns : Except Err Nat → Ans | .ok n => .nat n | .error e => .err e
def strAns : Except Err String → Ans | .ok n => .str n | .error e => .err e
def olocAns : Except Err (Option Locus) → Ans | .ok n => .oloc n | .error e => .err e

theorem strandLength_err (o : LObj) (k : Nat) (e : LErr) (h : (o.strandLength k).2 = .error e) : errOf e = LgL.errOf e := by
  unfold LObj.strandLength at h
  simp only at h
  split at h <;> cases h
  rfl

/-- after a successful `rotate_once()` the translated `strand_length(k)` answers like the current object in the turned
    representation -/
theorem py_strand_length_after_rotate_once (o : LObj) (h : o.seq.length = o.sst.length) (nx : List String × List Char)
    (hrot : Dsd.rotateOnce o.seq o.sst = .ok nx) (k : Nat) :
    ∃ s', (py_DSD_Complex_rotate_once).exec (ofL o) = (.ok (), s') ∧ (s'._sequence, s'._structure) = nx ∧
      natAns ((py_DSD_Complex_strand_length k).exec s').1 = (C20V.cur (rotated o nx)).answer (.strandLength k) := by
  obtain ⟨o', ho', hnx, _, _, _, _, _, _, _, _, _, _, _, hsl⟩ := C20V.legacy_views_after_rotate_once o h nx hrot
  have : o' = rotated o nx := by rw [C20F.legacy_rotate_once_obj o h nx hrot] at ho'; exact (Prod.mk.inj ho').1.symm
  subst this
  refine ⟨_, py_legacy_rotate_once_obj o h nx hrot, rfl, ?_⟩
  rw [py_strand_length_eq, ← hsl k]
  unfold exAns natAns C20V.ansNat
  cases hr : ((rotated o nx).strandLength k).2 with
  | ok n => rfl
  | error e => simp only [strandLength_err _ _ _ hr]

#print axioms py_rotate_once_eq
#print axioms py_size_eq
#print axioms py_strand_length_eq
#print axioms py_sequence_eq
#print axioms py_structure_eq
#print axioms py_lol_sequence_eq
#print axioms py_get_domain_eq
#print axioms py_pair_table_eq
#print axioms py_get_paired_loc_eq
#print axioms py_loop_index_eq
#print axioms py_get_loop_index_eq
#print axioms py_is_connected_eq
#print axioms py_ptOk_run
#print axioms py_loop_index_needs_ptOk
#print axioms py_legacy_rotate_once_obj
#print axioms py_legacy_rotate_once_eq_current
#print axioms py_legacy_rotate_once_raises
#print axioms py_strand_length_after_rotate_once

end Dsd.PyLegacy
