import DsdVerif.Gen.Grammars
import DsdVerif.Lemmas.PPMono
import DsdVerif.Lemmas.PPSsw

namespace Dsd.C19
open Dsd.PP Dsd.Gen

/-! Round-trip theorems for the seesaw grammar *as regenerated from seesaw_parser.py* (`Gen.ssw_grammar`),
interpreted by the model of pyparsing.  Numbers, list lengths and amounts of blanks are arbitrary. -/

def blanks (n : Nat) : List Char := List.replicate n ' '
def Digits (s : List Char) : Prop := s ≠ [] ∧ ∀ c ∈ s, c ∈ pp_nums
def tokOf (s : List Char) : Tree := .tok (String.ofList s)

/-- rendering of a brace list `{n1, n2, …}` with one blank after each comma -/
def renderList : List (List Char) → List Char
  | [] => []
  | [x] => x
  | x :: xs => x ++ [',', ' '] ++ renderList xs

def braces (xs : List (List Char)) : List Char := ['{'] ++ renderList xs ++ ['}']

/-- a wire `w[a, b]` -/
def renderWire (a b : List Char) (k : Nat) : List Char := "w[".toList ++ a ++ [','] ++ blanks k ++ b ++ [']']
def wireTree (a b : List Char) : Tree := .grp [.tok "w", .grp [tokOf a, tokOf b]]

-- ORIGINAL STATEMENT (false: running out of fuel is reported as a failure, and `opt` / `alt` / `many` / `many1`
-- turn the failure of a sub-parser into a success, so a result obtained with little fuel can change with more fuel;
-- e.g. env = [], fuel = 1, k = 1, ctx = {}, g = .opt (.lit ['a']), p = { rest := ['a'] }:
--   run [] 1 {} g p = some ({ rest := ['a'] }, [])      but      run [] 2 {} g p = some ({ rest := [] }, [.tok "a"])):
--   theorem run_fuel_mono (env : Env) (fuel k : Nat) (ctx : Ctx) (g : G) (p : Pos) (r : Pos × List Tree)
--       (h : run env fuel ctx g p = some r) : run env (fuel + k) ctx g p = some r
-- FIX: monotonicity holds on the choice-free fragment (`ChoiceFree`, Lemmas/PPMono.lean).  The round trips below
-- do not use it: they are proved with *eventual* results `Ev env ctx g p o b` ("for every fuel ≥ b the answer is
-- o", for successes and failures alike; Lemmas/PPRun.lean), which compose through every constructor.
theorem run_fuel_mono (env : Env) (fuel k : Nat) (ctx : Ctx) (g : G) (p : Pos) (r : Pos × List Tree)
    (hg : ChoiceFree g)
    (h : run env fuel ctx g p = some r) : run env (fuel + k) ctx g p = some r :=
  run_fuel_mono_choiceFree env fuel k ctx g p r hg h

example : run [] 1 {} (.opt (.lit ['a'])) { rest := ['a'] } = some ({ rest := ['a'] }, []) ∧
    run [] 2 {} (.opt (.lit ['a'])) { rest := ['a'] } = some ({ rest := [] }, [.tok "a"]) := ⟨rfl, rfl⟩

/-! ### bridging lemmas -/

open Dsd.PP.Ssw in
theorem notab_digits {s : List Char} (h : Digits s) : '\t' ∉ s := by
  intro hm
  exact (nums_facts _ (h.2 _ hm)).2.2.1 rfl

open Dsd.PP.Ssw in
theorem notab_tailR (xs : List (List Char)) (h : ∀ x ∈ xs, Digits x) : '\t' ∉ tailR xs := by
  induction xs with
  | nil => simp [tailR]
  | cons x xs ih =>
    have h1 := notab_digits (h x List.mem_cons_self)
    have h2 := ih (fun y hy => h y (List.mem_cons_of_mem _ hy))
    simp [tailR, h1, h2]

open Dsd.PP.Ssw in
theorem renderList_cons (x : List Char) (xs : List (List Char)) : renderList (x :: xs) = x ++ tailR xs := by
  induction xs generalizing x with
  | nil => simp [renderList, tailR]
  | cons y ys ih => simp [renderList, tailR, ih y]

/-- transfer of an eventual result of the document grammar to `parseDoc` -/
theorem parse_of_ev (text text' : List Char) (o : Option (Pos × List Tree)) (res : Option (List Tree)) (b : Nat)
    (h : Ev ssw_env sk ssw_grammar (P text') o b) (htext : text = text') (hnt : '\t' ∉ text')
    (hb : b ≤ 4 * text'.length + 200) (hres : o.map (·.2) = res) :
    parseDoc ssw_env ssw_grammar (String.ofList text) = res := by
  subst htext; subst hres
  exact Ssw.parseDoc_of_ev ssw_grammar text o b hnt h hb

/-- **INPUT declarations** with a numeric name bound to a wire -/
theorem input_rt (n a b : List Char) (hn : Digits n) (ha : Digits a) (hb : Digits b) (k1 k2 k3 : Nat) :
    parseDoc ssw_env ssw_grammar
      (String.ofList ("INPUT(".toList ++ n ++ [')'] ++ blanks k1 ++ ['='] ++ blanks k2 ++ renderWire a b k3 ++ ['\n'])) =
    some [.grp [.tok "INPUT", .grp [tokOf n], wireTree a b]] := by
  have hnt := notab_digits hn; have hat := notab_digits ha; have hbt := notab_digits hb
  refine parse_of_ev _ _ _ _ _ (Ssw.doc_ok 'I' _ (by decide) (by decide) (by decide) _ _
    (Ssw.inp_ev n a b hn ha hb k1 k2 k3)) ?_ ?_ ?_ rfl
  · simp [blanks, renderWire]
  · simp [hnt, hat, hbt]
  · omega

/-- **OUTPUT declarations** bound to a fluorophore -/
theorem output_fluor_rt (n f : List Char) (hn : Digits n) (hf : Digits f) (k1 k2 : Nat) :
    parseDoc ssw_env ssw_grammar
      (String.ofList ("OUTPUT(".toList ++ n ++ [')'] ++ blanks k1 ++ ['='] ++ blanks k2 ++ "Fluor[".toList ++ f ++ [']', '\n'])) =
    some [.grp [.tok "OUTPUT", .grp [tokOf n], .grp [.tok "Fluor", tokOf f]]] := by
  have hnt := notab_digits hn; have hft := notab_digits hf
  refine parse_of_ev _ _ _ _ _ (Ssw.doc_ok 'O' _ (by decide) (by decide) (by decide) _ _
    (Ssw.out_fluor_ev n f hn hf k1 k2)) ?_ ?_ ?_ rfl
  · simp [blanks]
  · simp [hnt, hft]
  · omega

/-- an INPUT bound to a fluorophore is rejected -/
theorem input_fluor_rejected (n f : List Char) (hn : Digits n) (hf : Digits f) :
    parseDoc ssw_env ssw_grammar
      (String.ofList ("INPUT(".toList ++ n ++ ") = Fluor[".toList ++ f ++ [']', '\n'])) = none := by
  have hnt := notab_digits hn; have hft := notab_digits hf
  refine parse_of_ev _ _ _ _ _ (Ssw.doc_fail 'I' _ (by decide) (by decide) (by decide) _
    (Ssw.inp_fluor_fail n hn 1 1 ('l' :: 'u' :: 'o' :: 'r' :: '[' :: (f ++ [']', '\n'])))) ?_ ?_ ?_ rfl
  · simp
  · simp [hnt, hft]
  · omega

/-- **reporter macro** -/
theorem reporter_rt (a b : List Char) (ha : Digits a) (hb : Digits b) (k : Nat) :
    parseDoc ssw_env ssw_grammar
      (String.ofList ("reporter[".toList ++ a ++ [','] ++ blanks k ++ b ++ [']', '\n'])) =
    some [.grp [.tok "reporter", .grp [tokOf a, tokOf b]]] := by
  have hat := notab_digits ha; have hbt := notab_digits hb
  refine parse_of_ev _ _ _ _ _ (Ssw.doc_ok 'r' _ (by decide) (by decide) (by decide) _ _
    (Ssw.reporter_ev a b ha hb k)) ?_ ?_ ?_ rfl
  · simp [blanks]
  · simp [hat, hbt]
  · omega

/-- a reporter with one argument is rejected -/
theorem reporter_arity_rejected (a : List Char) (ha : Digits a) :
    parseDoc ssw_env ssw_grammar (String.ofList ("reporter[".toList ++ a ++ [']', '\n'])) = none := by
  have hat := notab_digits ha
  refine parse_of_ev _ _ _ _ _ (Ssw.doc_fail 'r' _ (by decide) (by decide) (by decide) _
    (Ssw.reporter_arity_fail a ha ['\n'])) ?_ ?_ ?_ rfl
  · simp
  · simp [hat]
  · omega

/-- **brace lists of any length** (inside `inputfanout`) -/
theorem inputfanout_rt (a b : List Char) (xs : List (List Char)) (ha : Digits a) (hb : Digits b)
    (hxs : xs ≠ [] ∧ ∀ x ∈ xs, Digits x) :
    parseDoc ssw_env ssw_grammar
      (String.ofList ("inputfanout[".toList ++ a ++ ", ".toList ++ b ++ ", ".toList ++ braces xs ++ [']', '\n'])) =
    some [.grp [.tok "inputfanout", .grp [tokOf a, tokOf b, .grp (xs.map tokOf)]]] := by
  obtain ⟨hne, hall⟩ := hxs
  obtain ⟨x0, xs, rfl⟩ : ∃ x0 xs', xs = x0 :: xs' := by
    cases xs with
    | nil => exact absurd rfl hne
    | cons x0 xs' => exact ⟨x0, xs', rfl⟩
  have h0 : Digits x0 := hall x0 List.mem_cons_self
  have hrest : ∀ y ∈ xs, Digits y := fun y hy => hall y (List.mem_cons_of_mem _ hy)
  have hat := notab_digits ha; have hbt := notab_digits hb; have h0t := notab_digits h0
  have hxt := notab_tailR xs hrest
  have hlen := Ssw.length_le_tailR xs
  refine parse_of_ev _ _ _ _ _ (Ssw.doc_ok 'i' _ (by decide) (by decide) (by decide) _ _
    (Ssw.inputfanout_ev a b x0 xs ha hb h0 hrest 1 1)) ?_ ?_ ?_ rfl
  · simp [braces, renderList_cons]
  · simp [hat, hbt, h0t, hxt]
  · simp only [List.length_cons, List.length_append]; omega

/-- **seesaw gates**: input and output lists of any length -/
theorem seesaw_rt (n : List Char) (ins outs : List (List Char)) (hn : Digits n)
    (hi : ins ≠ [] ∧ ∀ x ∈ ins, Digits x) (ho : outs ≠ [] ∧ ∀ x ∈ outs, Digits x) :
    parseDoc ssw_env ssw_grammar
      (String.ofList ("seesaw[".toList ++ n ++ ", ".toList ++ braces ins ++ ", ".toList ++ braces outs ++ [']', '\n'])) =
    some [.grp [.tok "seesaw", .grp [tokOf n, .grp (ins.map tokOf), .grp (outs.map tokOf)]]] := by
  obtain ⟨hine, hiall⟩ := hi
  obtain ⟨hone, hoall⟩ := ho
  obtain ⟨i0, is, rfl⟩ : ∃ x0 xs', ins = x0 :: xs' := by
    cases ins with
    | nil => exact absurd rfl hine
    | cons x0 xs' => exact ⟨x0, xs', rfl⟩
  obtain ⟨o0, os, rfl⟩ : ∃ x0 xs', outs = x0 :: xs' := by
    cases outs with
    | nil => exact absurd rfl hone
    | cons x0 xs' => exact ⟨x0, xs', rfl⟩
  have hi0 : Digits i0 := hiall i0 List.mem_cons_self
  have his : ∀ y ∈ is, Digits y := fun y hy => hiall y (List.mem_cons_of_mem _ hy)
  have ho0 : Digits o0 := hoall o0 List.mem_cons_self
  have hos : ∀ y ∈ os, Digits y := fun y hy => hoall y (List.mem_cons_of_mem _ hy)
  have hnt := notab_digits hn; have hi0t := notab_digits hi0; have ho0t := notab_digits ho0
  have hist := notab_tailR is his; have host := notab_tailR os hos
  have hl1 := Ssw.length_le_tailR is; have hl2 := Ssw.length_le_tailR os
  refine parse_of_ev _ _ _ _ _ (Ssw.doc_ok 's' _ (by decide) (by decide) (by decide) _ _
    (Ssw.seesaw_ev n i0 o0 is os hn hi0 ho0 his hos 1 1)) ?_ ?_ ?_ rfl
  · simp [braces, renderList_cons]
  · simp [hnt, hi0t, ho0t, hist, host]
  · simp only [List.length_cons, List.length_append]; omega

/-- **wire concentrations** with an integer multiple of `c`; a negative concentration is rejected -/
theorem wireconc_rt (a b v : List Char) (ha : Digits a) (hb : Digits b) (hv : Digits v) (k : Nat) :
    parseDoc ssw_env ssw_grammar
      (String.ofList ("conc[".toList ++ renderWire a b 1 ++ [','] ++ blanks k ++ v ++ "*c]\n".toList)) =
    some [.grp [.tok "conc", wireTree a b, tokOf v]] := by
  have hat := notab_digits ha; have hbt := notab_digits hb; have hvt := notab_digits hv
  refine parse_of_ev _ _ _ _ _ (Ssw.doc_ok 'c' _ (by decide) (by decide) (by decide) _ _
    (Ssw.wireconc_ev a b v ha hb hv 1 k)) ?_ ?_ ?_ rfl
  · simp [blanks, renderWire]
  · simp [hat, hbt, hvt]
  · omega

theorem negative_conc_rejected (a b v : List Char) (ha : Digits a) (hb : Digits b) (hv : Digits v) :
    parseDoc ssw_env ssw_grammar
      (String.ofList ("conc[".toList ++ renderWire a b 1 ++ ", -".toList ++ v ++ "*c]\n".toList)) = none := by
  have hat := notab_digits ha; have hbt := notab_digits hb; have hvt := notab_digits hv
  refine parse_of_ev _ _ _ _ _ (Ssw.doc_fail 'c' _ (by decide) (by decide) (by decide) _
    (Ssw.negconc_fail a b ha hb 1 1 (v ++ ['*', 'c', ']', '\n']))) ?_ ?_ ?_ rfl
  · simp [blanks, renderWire]
  · simp [hat, hbt, hvt]
  · omega

end Dsd.C19
