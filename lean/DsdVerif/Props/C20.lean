/-
C20 — the legacy sequence-constraint class agrees with the current IUPAC functions on complements wherever
both are defined.  Both sides are tables regenerated from the source on every run.
-/
import DsdVerif.Gen.LegacyIupac
import DsdVerif.Spec.Iupac
import DsdVerif.Props.C20Legacy
import DsdVerif.Props.C20Wrappers
import DsdVerif.Props.C20Full
import DsdVerif.Props.C20FullViews

namespace Dsd.C20
open Dsd.Iupac

/-- a legacy row `(k, v)` agrees with a current table: same single-character key, same image -/
def rowAgrees (cur : List (Char × Char)) (r : String × String) : Bool :=
  match r.1.toList, r.2.toList with
  | [k], [v] => lookup cur k == some v
  | _, _ => false

/-- every entry of the legacy dictionaries (`T ↦ 'T'`) is an entry of the current DNA tables -/
theorem legacy_iupac_agree_dna :
    (∀ r ∈ Gen.Legacy.wc_complement_dna, rowAgrees Gen.wc_complement_dna r = true) ∧
    (∀ r ∈ Gen.Legacy.iupac_complement_dna, rowAgrees Gen.wobble_complement_dna r = true) := by decide

/-- `T ↦ 'U'`: the RNA tables.  The legacy wobble dictionary keeps a stray DNA key `'T'` next to `'U'`;
    it is outside the RNA alphabet of the current functions ("wherever both are defined"). -/
theorem legacy_iupac_agree_rna :
    (∀ r ∈ Gen.Legacy.wc_complement_rna, rowAgrees Gen.wc_complement_rna r = true) ∧
    (∀ r ∈ Gen.Legacy.iupac_complement_rna, r.1 ≠ "T" → rowAgrees Gen.wobble_complement_rna r = true) := by decide

/-- conversely every code of a material has a legacy wobble entry (the legacy wobble table is total) -/
theorem legacy_wobble_total :
    (∀ c ∈ codes .dna, (Gen.Legacy.iupac_complement_dna.find? (fun r => r.1 == String.singleton c)).isSome) ∧
    (∀ c ∈ codes .rna, (Gen.Legacy.iupac_complement_rna.find? (fun r => r.1 == String.singleton c)).isSome) := by decide

end Dsd.C20
