import DsdVerif.Gen.Grammars
import DsdVerif.Lemmas.PPRun
import DsdVerif.Lemmas.PilRun
import DsdVerif.Lemmas.PilKernel
import DsdVerif.Lemmas.PilMore
import DsdVerif.Props.C13Pil
import DsdVerif.Props.C13Kernel

namespace Dsd.C13
open Dsd Dsd.PP Dsd.Gen

/-! The remaining statement kinds of the PIL grammar (regenerated from source). -/

/-- a dot-bracket field: non-empty, over `( ) . +` (the grammar's `dotbracket` word also admits blanks;
    here the canonical rendering without inner blanks) -/
def DotBracket (s : List Char) : Prop := s ≠ [] ∧ ∀ c ∈ s, c = '(' ∨ c = ')' ∨ c = '.' ∨ c = '+'

def plusSep : List (List Char) → List Char
  | [] => []
  | [x] => x
  | x :: xs => x ++ " + ".toList ++ plusSep xs


theorem domName_isDom (d : List Char) (h : DomName d) : Pil.IsDom d := by
  obtain ⟨base, st, rfl, hb⟩ := h
  obtain ⟨bc, bm, rfl, h1, h2⟩ := Pil.cons_of_class base _ hb
  exact ⟨bc, bm, st, rfl, h1, h2⟩

theorem spaced_eq (d : List Char) (ds : List (List Char)) : spaced (d :: ds) = d ++ Pil.spDoms ds := by
  induction ds generalizing d with
  | nil => simp [spaced, Pil.spDoms]
  | cons x xs ih =>
    show d ++ [' '] ++ spaced (x :: xs) = _
    rw [ih x, Pil.spDoms_cons]; simp

theorem plusSep_eq (d : List Char) (ds : List (List Char)) : plusSep (d :: ds) = d ++ Pil.psList ds := by
  have k : " + ".toList = [' ', '+', ' '] := rfl
  induction ds generalizing d with
  | nil => simp [plusSep, Pil.psList]
  | cons x xs ih =>
    show d ++ " + ".toList ++ plusSep (x :: xs) = _
    rw [ih x, Pil.psList_cons, k]; simp

theorem dotBracket_core (db : List Char) (h : DotBracket db) :
    ∃ dc dm, db = dc :: dm ∧ dc ∈ Pil.dbCore ∧ ∀ x ∈ dm, x ∈ Pil.dbCore := by
  obtain ⟨h1, h2⟩ := h
  have hc : ∀ c ∈ db, c ∈ Pil.dbCore := by
    intro c hc
    rcases h2 c hc with rfl | rfl | rfl | rfl <;> decide
  cases db with
  | nil => exact absurd rfl h1
  | cons dc dm => exact ⟨dc, dm, rfl, hc dc (by simp), fun x hx => hc x (List.mem_cons_of_mem _ hx)⟩

/-- **strand-notation complexes, `complex` form** (strands and dot-bracket on their own lines) -/
theorem complex_rt (name : List Char) (strands : List (List Char)) (db : List Char) (sign : Char) (hs : sign = '=' ∨ sign = ':')
    (hn : Ident name) (hst : strands ≠ [] ∧ ∀ s ∈ strands, DomName s) (hdb : DotBracket db) (a b : Nat) :
    parseDoc pil_env pil_grammar
      (String.ofList ("complex".toList ++ blanks (a + 1) ++ name ++ blanks b ++ [sign] ++ ['\n'] ++ spaced strands ++ ['\n'] ++ db ++ ['\n'])) =
    some [.grp [.tok "strand-complex", tokOf name, .grp (strands.map tokOf), tokOf db]] := by
  obtain ⟨nc, m, rfl, hnc, hm⟩ := Pil.cons_of_class name _ hn
  obtain ⟨dbc, dbm, rfl, hdbc, hdbm⟩ := dotBracket_core db hdb
  obtain ⟨hst1, hst2⟩ := hst
  cases strands with
  | nil => exact absurd rfl hst1
  | cons d ds =>
    have k : "complex".toList = ['c', 'o', 'm', 'p', 'l', 'e', 'x'] := rfl
    have htext : "complex".toList ++ blanks (a + 1) ++ (nc :: m) ++ blanks b ++ [sign] ++ ['\n'] ++ spaced (d :: ds) ++
        ['\n'] ++ (dbc :: dbm) ++ ['\n'] =
        ['c', 'o', 'm', 'p', 'l', 'e', 'x'] ++ Pil.complexText (a + 1) nc m b sign d ds dbc dbm := by
      rw [k, spaced_eq]; simp [blanks, Pil.complexText, List.append_assoc]
    rw [htext]
    exact Pil.complex_parse (a + 1) (Nat.succ_pos a) nc m b sign hs d ds dbc dbm hnc hm (domName_isDom d (hst2 d (by simp)))
      (fun x hx => domName_isDom x (hst2 x (List.mem_cons_of_mem _ hx))) hdbc hdbm

/-- **strand-notation complexes, `structure` form** (strands separated by `+`, which the grammar drops) -/
theorem structure_rt (name : List Char) (strands : List (List Char)) (db : List Char) (s1 s2 : Char)
    (hs1 : s1 = '=' ∨ s1 = ':') (hs2 : s2 = '=' ∨ s2 = ':')
    (hn : Ident name) (hst : strands ≠ [] ∧ ∀ s ∈ strands, DomName s) (hdb : DotBracket db) (a : Nat) :
    parseDoc pil_env pil_grammar
      (String.ofList ("structure".toList ++ blanks (a + 1) ++ name ++ [' ', s1, ' '] ++ plusSep strands ++ [' ', s2, ' '] ++ db ++ ['\n'])) =
    some [.grp [.tok "strand-complex", tokOf name, .grp (strands.map tokOf), tokOf db]] := by
  obtain ⟨nc, m, rfl, hnc, hm⟩ := Pil.cons_of_class name _ hn
  obtain ⟨dbc, dbm, rfl, hdbc, hdbm⟩ := dotBracket_core db hdb
  obtain ⟨hst1, hst2⟩ := hst
  cases strands with
  | nil => exact absurd rfl hst1
  | cons d ds =>
    have k : "structure".toList = ['s', 't', 'r', 'u', 'c', 't', 'u', 'r', 'e'] := rfl
    have htext : "structure".toList ++ blanks (a + 1) ++ (nc :: m) ++ [' ', s1, ' '] ++ plusSep (d :: ds) ++
        [' ', s2, ' '] ++ (dbc :: dbm) ++ ['\n'] =
        ['s', 't', 'r', 'u', 'c', 't', 'u', 'r', 'e'] ++ Pil.structText (a + 1) nc m s1 d ds s2 dbc dbm := by
      rw [k, plusSep_eq]; simp [blanks, Pil.structText, List.append_assoc]
    rw [htext]
    exact Pil.struct_parse (a + 1) (Nat.succ_pos a) nc m s1 s2 hs1 hs2 d ds dbc dbm hnc hm (domName_isDom d (hst2 d (by simp)))
      (fun x hx => domName_isDom x (hst2 x (List.mem_cons_of_mem _ hx))) hdbc hdbm


theorem ident_isId (d : List Char) (h : Ident d) : Pil.IsId d := by
  obtain ⟨bc, bm, rfl, h1, h2⟩ := Pil.cons_of_class d _ h
  exact ⟨bc, bm, rfl, h1, h2⟩

theorem rx_text_eq (n : Nat) (rc : Char) (rm : List Char) (rs : List (List Char)) (pc : Char) (pm : List Char)
    (ps : List (List Char)) :
    blanks n ++ plusSep ((rc :: rm) :: rs) ++ " -> ".toList ++ plusSep ((pc :: pm) :: ps) ++ ['\n'] =
      Pil.rxText n rc rm rs pc pm ps := by
  have k : " -> ".toList = [' ', '-', '>', ' '] := rfl
  rw [plusSep_eq, plusSep_eq, k]
  simp [blanks, Pil.rxText, List.append_assoc]

/-- **reactions without an information box** -/
theorem reaction_plain_rt (kw : List Char) (hkw : kw = "reaction".toList ∨ kw = "kinetic".toList)
    (rs ps : List (List Char)) (hr : rs ≠ [] ∧ ∀ r ∈ rs, Ident r) (hp : ps ≠ [] ∧ ∀ p ∈ ps, Ident p) (a : Nat) :
    parseDoc pil_env pil_grammar
      (String.ofList (kw ++ blanks (a + 1) ++ plusSep rs ++ " -> ".toList ++ plusSep ps ++ ['\n'])) =
    some [.grp [.tok "reaction", .grp [], .grp (rs.map tokOf), .grp (ps.map tokOf)]] := by
  obtain ⟨hr1, hr2⟩ := hr
  obtain ⟨hp1, hp2⟩ := hp
  cases rs with
  | nil => exact absurd rfl hr1
  | cons r rs =>
    cases ps with
    | nil => exact absurd rfl hp1
    | cons q ps =>
      obtain ⟨rc, rm, rfl, hrc, hrm⟩ := Pil.cons_of_class r _ (hr2 r (by simp))
      obtain ⟨pc, pm, rfl, hpc, hpm⟩ := Pil.cons_of_class q _ (hp2 q (by simp))
      have k1 : "reaction".toList = ['r', 'e', 'a', 'c', 't', 'i', 'o', 'n'] := rfl
      have k2 : "kinetic".toList = ['k', 'i', 'n', 'e', 't', 'i', 'c'] := rfl
      rw [k1, k2] at hkw
      have htext : kw ++ blanks (a + 1) ++ plusSep ((rc :: rm) :: rs) ++ " -> ".toList ++ plusSep ((pc :: pm) :: ps) ++
          ['\n'] = kw ++ Pil.rxText (a + 1) rc rm rs pc pm ps := by
        rw [← rx_text_eq]; simp [List.append_assoc]
      rw [htext]
      exact Pil.rx_plain_parse kw hkw a rc rm rs pc pm ps hrc hrm
        (fun x hx => ident_isId x (hr2 x (List.mem_cons_of_mem _ hx))) hpc hpm
        (fun x hx => ident_isId x (hp2 x (List.mem_cons_of_mem _ hx)))

/-- **reactions with type, integer rate and units** (`[type = rate /M/s]`, any number of concentration units) -/
theorem reaction_info_rt (ty rate : List Char) (cunits : List (List Char)) (tu : List Char)
    (rs ps : List (List Char)) (hty : Letters ty) (hrate : Digits rate)
    (hcu : ∀ u ∈ cunits, u = "M".toList ∨ u = "mM".toList ∨ u = "uM".toList ∨ u = "nM".toList ∨ u = "pM".toList)
    (htu : tu = "s".toList ∨ tu = "m".toList ∨ tu = "h".toList)
    (hr : rs ≠ [] ∧ ∀ r ∈ rs, Ident r) (hp : ps ≠ [] ∧ ∀ p ∈ ps, Ident p) :
    parseDoc pil_env pil_grammar
      (String.ofList ("reaction [".toList ++ ty ++ " = ".toList ++ rate ++ [' '] ++ (cunits.map (fun u => '/' :: u)).flatten ++ ['/'] ++ tu ++
        "] ".toList ++ plusSep rs ++ " -> ".toList ++ plusSep ps ++ ['\n'])) =
    some [.grp [.tok "reaction",
      .grp [.grp [tokOf ty], .grp [tokOf rate], .grp [tokOf ((cunits.map (fun u => '/' :: u)).flatten ++ ['/'] ++ tu)]],
      .grp (rs.map tokOf), .grp (ps.map tokOf)]] := by
  obtain ⟨hr1, hr2⟩ := hr
  obtain ⟨hp1, hp2⟩ := hp
  obtain ⟨tc, tm, rfl, htc, htm⟩ := Pil.cons_of_class ty _ hty
  obtain ⟨dc, dm, rfl, hdc, hdm⟩ := Pil.cons_of_class rate _ hrate
  have hcu' : ∀ u ∈ cunits, Pil.IsCunit u := by
    intro u hu
    have e1 : "M".toList = ['M'] := rfl
    have e2 : "mM".toList = ['m', 'M'] := rfl
    have e3 : "uM".toList = ['u', 'M'] := rfl
    have e4 : "nM".toList = ['n', 'M'] := rfl
    have e5 : "pM".toList = ['p', 'M'] := rfl
    have := hcu u hu
    rw [e1, e2, e3, e4, e5] at this
    exact this
  have htu' : Pil.IsTunit tu := by
    have e1 : "s".toList = ['s'] := rfl
    have e2 : "m".toList = ['m'] := rfl
    have e3 : "h".toList = ['h'] := rfl
    rw [e1, e2, e3] at htu
    exact htu
  cases rs with
  | nil => exact absurd rfl hr1
  | cons r rs =>
    cases ps with
    | nil => exact absurd rfl hp1
    | cons q ps =>
      obtain ⟨rc, rm, rfl, hrc, hrm⟩ := Pil.cons_of_class r _ (hr2 r (by simp))
      obtain ⟨pc, pm, rfl, hpc, hpm⟩ := Pil.cons_of_class q _ (hp2 q (by simp))
      have k1 : "reaction [".toList = ['r', 'e', 'a', 'c', 't', 'i', 'o', 'n', ' ', '['] := rfl
      have k2 : " = ".toList = [' ', '=', ' '] := rfl
      have k3 : "] ".toList = [']', ' '] := rfl
      have hrx := rx_text_eq 1 rc rm rs pc pm ps
      have htext : "reaction [".toList ++ (tc :: tm) ++ " = ".toList ++ (dc :: dm) ++ [' '] ++
          (cunits.map (fun u => '/' :: u)).flatten ++ ['/'] ++ tu ++ "] ".toList ++ plusSep ((rc :: rm) :: rs) ++
          " -> ".toList ++ plusSep ((pc :: pm) :: ps) ++ ['\n'] =
          ['r', 'e', 'a', 'c', 't', 'i', 'o', 'n'] ++
            Pil.infoText tc tm dc dm cunits tu (Pil.rxText 1 rc rm rs pc pm ps) := by
        rw [← hrx, k1, k2, k3]
        simp [Pil.infoText, Pil.cuText, blanks, List.append_assoc]
      rw [htext]
      have := Pil.rx_info_parse tc tm dc dm cunits tu rc rm rs pc pm ps htc htm hdc hdm hcu' htu' hrc hrm
        (fun x hx => ident_isId x (hr2 x (List.mem_cons_of_mem _ hx))) hpc hpm
        (fun x hx => ident_isId x (hp2 x (List.mem_cons_of_mem _ hx)))
      rw [this]
      simp [tokOf, Pil.cuText, List.append_assoc]

/-- **kernel complexes with a concentration** (every identifier `name`, as in `kernel_rt`) -/
theorem kernel_conc_rt (name : List Char) (seq : List String) (sst : List Char) (toks : List Tree)
    (mode value unit : List Char)
    (hn : Ident name) (hl : LegalNames seq sst) (hne : sst ≠ [])
    (ht : kernelTokens seq sst = some toks)
    (hm : mode = "initial".toList ∨ mode = "i".toList ∨ mode = "constant".toList ∨ mode = "c".toList)
    (hv : Digits value)
    (hu : unit = "M".toList ∨ unit = "mM".toList ∨ unit = "uM".toList ∨ unit = "nM".toList ∨ unit = "pM".toList) :
    parseDoc pil_env pil_grammar
      (String.ofList (name ++ " = ".toList ++ (kernelString seq sst).toList ++ " @".toList ++ mode ++ [' '] ++ value ++ [' '] ++ unit ++ ['\n'])) =
    some [.grp [.tok "kernel-complex", tokOf name, .grp toks, .grp [tokOf mode, tokOf value, tokOf unit]]] := by
  obtain ⟨vc, vm, rfl, hvc, hvm⟩ := Pil.cons_of_class value _ hv
  have hmode : Pil.IsMode mode := by
    have e1 : "initial".toList = ['i', 'n', 'i', 't', 'i', 'a', 'l'] := rfl
    have e2 : "i".toList = ['i'] := rfl
    have e3 : "constant".toList = ['c', 'o', 'n', 's', 't', 'a', 'n', 't'] := rfl
    have e4 : "c".toList = ['c'] := rfl
    rw [e1, e2, e3, e4] at hm
    exact hm
  have hunit : Pil.IsCunit unit := by
    have e1 : "M".toList = ['M'] := rfl
    have e2 : "mM".toList = ['m', 'M'] := rfl
    have e3 : "uM".toList = ['u', 'M'] := rfl
    have e4 : "nM".toList = ['n', 'M'] := rfl
    have e5 : "pM".toList = ['p', 'M'] := rfl
    rw [e1, e2, e3, e4, e5] at hu
    exact hu
  obtain ⟨nc, m, rfl, hnc, hm', hL, hleg, hp, htext⟩ :=
    kernel_prep name seq sst toks hn hl hne ht (Pil.concText mode vc vm unit)
  have k : " @".toList = [' ', '@'] := rfl
  have hre : (nc :: m) ++ " = ".toList ++ (kernelString seq sst).toList ++ " @".toList ++ mode ++ [' '] ++ (vc :: vm) ++
      [' '] ++ unit ++ ['\n'] =
      (nc :: m) ++ " = ".toList ++ (kernelString seq sst).toList ++ Pil.concText mode vc vm unit := by
    rw [k]; simp [Pil.concText, List.append_assoc]
  rw [hre, htext]
  exact Pil.kernel_conc_parse nc m _ toks mode vc vm unit hnc hm' hL hleg hp hmode hvc hvm hunit

/-- **a document parses as the concatenation of its statements** (two domain-length statements separated by
    any number of blank lines) -/
theorem two_statements_rt (n1 d1 n2 d2 : List Char) (h1 : Ident n1) (hd1 : Digits d1) (h2 : Ident n2) (hd2 : Digits d2) (k : Nat) :
    parseDoc pil_env pil_grammar
      (String.ofList ("length ".toList ++ n1 ++ " = ".toList ++ d1 ++ ['\n'] ++ List.replicate k '\n' ++
                      "length ".toList ++ n2 ++ " = ".toList ++ d2 ++ ['\n'])) =
    some [.grp [.tok "dl-domain", tokOf n1, tokOf d1], .grp [.tok "dl-domain", tokOf n2, tokOf d2]] := by
  obtain ⟨nc1, m1, rfl, a1, a2⟩ := Pil.cons_of_class n1 _ h1
  obtain ⟨dc1, dm1, rfl, a3, a4⟩ := Pil.cons_of_class d1 _ hd1
  obtain ⟨nc2, m2, rfl, b1, b2⟩ := Pil.cons_of_class n2 _ h2
  obtain ⟨dc2, dm2, rfl, b3, b4⟩ := Pil.cons_of_class d2 _ hd2
  have k1 : "length ".toList = ['l', 'e', 'n', 'g', 't', 'h', ' '] := rfl
  have k2 : " = ".toList = [' ', '=', ' '] := rfl
  have htext : "length ".toList ++ (nc1 :: m1) ++ " = ".toList ++ (dc1 :: dm1) ++ ['\n'] ++ List.replicate k '\n' ++
      "length ".toList ++ (nc2 :: m2) ++ " = ".toList ++ (dc2 :: dm2) ++ ['\n'] =
      Pil.lengthKw ++ Pil.dlText 1 nc1 m1 false 1 '=' 1 (dc1 :: dm1)
        ('\n' :: (List.replicate k '\n' ++ (Pil.lengthKw ++ Pil.dlText 1 nc2 m2 false 1 '=' 1 (dc2 :: dm2) ['\n']))) := by
    rw [k1, k2]; simp [Pil.lengthKw, Pil.dlText, Pil.star, List.append_assoc, List.replicate]
  rw [htext]
  exact Pil.two_dl nc1 m1 dc1 dm1 k nc2 m2 dc2 dm2 a1 a2 a3 a4 b1 b2 b3 b4

end Dsd.C13
