import DsdVerif.Gen.PySetters

/-!
C10 on the code as written: the property SETTERS of `dsdobjects/base_classes.py` that protect an object's identity — `Gen/PySetters.lean` is
regenerated from the source text on every run (translator/pysetters.py) — raise `SingletonError` (with `existing = None`) for EVERY assigned
value (of any type: the translation is polymorphic in `value`, which the bodies never mention) and leave the object exactly as it was.  A
setter that is turned into an assignment is translated as that assignment, and these statements fail.

FINDING (reading of the property text vs the code): the text of C10 says "reaction types are restricted to the class's RTYPES".  In this tree
`ReactionS.rtype` has NO accepting branch: the setter refuses every value, the members of `RTYPES` included (`py_ReactionS_rtype_set_refused`,
`rtype_in_RTYPES_refused`), `__init__` stores `rtype` unchecked (Props/PySetObjects `py_ReactionS_init_eq`), and `RTYPES` is read only by
`dsdobjects/objectio.py`.  So for `ReactionS` itself the restriction does not exist; what holds is that the type cannot be changed after construction.
-/
namespace Dsd.PySetters
open Dsd Dsd.Gen

variable {α : Type}

theorem py_DomainS_name_set_refused (v : α) (s : DomainSObj.Self) : (py_DomainS_name_set v).exec s = (.error (.singleton none), s) := rfl
theorem py_DomainS_length_set_refused (v : α) (s : DomainSObj.Self) : (py_DomainS_length_set v).exec s = (.error (.singleton none), s) := rfl
theorem py_ComplexS_name_set_refused (v : α) (s : ComplexS.Self) : (py_ComplexS_name_set v).exec s = (.error (.singleton none), s) := rfl
theorem py_ComplexS_canonical_form_set_refused (v : α) (s : ComplexS.Self) :
    (py_ComplexS_canonical_form_set v).exec s = (.error (.singleton none), s) := rfl
theorem py_MacrostateS_complexes_set_refused (v : α) (s : MacrostateSObj.Self) :
    (py_MacrostateS_complexes_set v).exec s = (.error (.singleton none), s) := rfl
theorem py_MacrostateS_representative_set_refused (v : α) (s : MacrostateSObj.Self) :
    (py_MacrostateS_representative_set v).exec s = (.error (.singleton none), s) := rfl
theorem py_ReactionS_reactants_set_refused (v : α) (s : ReactionSObj.Self) :
    (py_ReactionS_reactants_set v).exec s = (.error (.singleton none), s) := rfl
theorem py_ReactionS_products_set_refused (v : α) (s : ReactionSObj.Self) :
    (py_ReactionS_products_set v).exec s = (.error (.singleton none), s) := rfl
theorem py_ReactionS_rtype_set_refused (v : α) (s : ReactionSObj.Self) : (py_ReactionS_rtype_set v).exec s = (.error (.singleton none), s) := rfl
theorem py_ReactionS_name_set_refused (v : α) (s : ReactionSObj.Self) : (py_ReactionS_name_set v).exec s = (.error (.singleton none), s) := rfl

/-- the members of `ReactionS.RTYPES` are refused like everything else (kernel-checked on a concrete object; see FINDING above) -/
theorem rtype_in_RTYPES_refused (s : ReactionSObj.Self) :
    ∀ t ∈ ["condensed", "open", "bind11", "bind21", "branch-3way", "branch-4way"],
      (py_ReactionS_rtype_set (some t)).exec s = (.error (.singleton none), s) ∧ ((py_ReactionS_rtype.exec s).1 = .ok s._rtype) :=
  fun _ _ => ⟨rfl, rfl⟩

/-- the `DomainS` getters read what `__init__` stored -/
theorem py_DomainS_getters (s : DomainSObj.Self) :
    py_DomainS_name.exec s = (.ok s._name, s) ∧ py_DomainS_length.exec s = (.ok s._length, s) := ⟨rfl, rfl⟩

/-- the (class, attribute) pairs whose property has a setter that protects the object's identity -/
inductive Attr
  | domainName | domainLength | complexName | complexCanonicalForm | macroComplexes | macroRepresentative
  | reactionReactants | reactionProducts | reactionRtype | reactionName
deriving DecidableEq, Repr

/-- the translated part of an object of the attribute's class -/
def Attr.State : Attr → Type
  | .domainName | .domainLength => DomainSObj.Self
  | .complexName | .complexCanonicalForm => ComplexS.Self
  | .macroComplexes | .macroRepresentative => MacrostateSObj.Self
  | .reactionReactants | .reactionProducts | .reactionRtype | .reactionName => ReactionSObj.Self

/-- `obj.<attribute> = value` as written in the source -/
def Attr.set : (a : Attr) → α → Py.MS a.State Unit
  | .domainName, v => py_DomainS_name_set v
  | .domainLength, v => py_DomainS_length_set v
  | .complexName, v => py_ComplexS_name_set v
  | .complexCanonicalForm, v => py_ComplexS_canonical_form_set v
  | .macroComplexes, v => py_MacrostateS_complexes_set v
  | .macroRepresentative, v => py_MacrostateS_representative_set v
  | .reactionReactants, v => py_ReactionS_reactants_set v
  | .reactionProducts, v => py_ReactionS_products_set v
  | .reactionRtype, v => py_ReactionS_rtype_set v
  | .reactionName, v => py_ReactionS_name_set v

/-- **name, canonical form and membership are read-only**: for every protected attribute of every class, every assigned value (of any
    type) and every object, the assignment raises SingletonError (`existing = None`) and the object is unchanged — hence every getter
    answers after it as before -/
theorem py_identity_readonly (a : Attr) (v : α) (s : a.State) : (a.set v).exec s = (.error (.singleton none), s) := by
  cases a <;> rfl

/-- … in particular any view `g` of the object (a translated getter or anything else that reads the state) is unaffected -/
theorem py_getters_unaffected {β : Type} (a : Attr) (v : α) (s : a.State) (g : Py.MS a.State β) :
    g.exec ((a.set v).exec s).2 = g.exec s := by
  rw [py_identity_readonly]

end Dsd.PySetters

#print axioms Dsd.PySetters.py_DomainS_name_set_refused
#print axioms Dsd.PySetters.py_DomainS_length_set_refused
#print axioms Dsd.PySetters.py_ComplexS_name_set_refused
#print axioms Dsd.PySetters.py_ComplexS_canonical_form_set_refused
#print axioms Dsd.PySetters.py_MacrostateS_complexes_set_refused
#print axioms Dsd.PySetters.py_MacrostateS_representative_set_refused
#print axioms Dsd.PySetters.py_ReactionS_reactants_set_refused
#print axioms Dsd.PySetters.py_ReactionS_products_set_refused
#print axioms Dsd.PySetters.py_ReactionS_rtype_set_refused
#print axioms Dsd.PySetters.py_ReactionS_name_set_refused
#print axioms Dsd.PySetters.rtype_in_RTYPES_refused
#print axioms Dsd.PySetters.py_DomainS_getters
#print axioms Dsd.PySetters.py_identity_readonly
#print axioms Dsd.PySetters.py_getters_unaffected
