/-
`ComplexS.__init__` AS WRITTEN in the working tree (Gen/PyComplexS3.lean, transcribed statement by statement by translator/pycomplex3.py):

  `py_init_full_eq`            its net effect on the new object and on the class (name given or automatic, `cls.ID += 1` exactly when no name was
                               given, every attribute, `cls._instanceCanon[k] = self` for exactly the keys `rcplxs`, in order); never raises when
                               a canonical form and `turns` are handed over; `py_init_full_asserts` otherwise (AssertionError, nothing changed)
  `py_init_attrs_eq_pymethod`  on the attributes of `ComplexS.Self` it IS `py_ComplexS_init`, the attribute initialisation that
                               translator/pymethod.py reads off `__init__` and that the C03 object theorems start from
  `py_init_registers_eq_construct`   the class dictionary afterwards is what the abstract constructor `Py.construct` of
                               Model/PyPreludeSingleton.lean ASSUMES (the hypothesis under which `PySingleton.py_call_eq_callFull` speaks about
                               `ComplexS`): same association list, same returned object
  `py_init_after_identifiers`  composed with `PyIdent.py_ComplexS_identifiers_net`: handed what the translated `identifiers` returns, `__init__`
                               stores THE NAME `identifiers` DERIVED (the two sites agree: the object is filed in `_instanceNames` under the name
                               it carries), the canonical form, the turns, and registers exactly the rotations `identifiers` visited
  `py_complex_request_eq_full` the translated `identifiers` followed by the translated `Singleton.__call__` (whose constructor step is, by the two
                               theorems above, the translated `__init__`) returns / raises what `complexRequestFull` of Model/ComplexFull.lean says
-/
import DsdVerif.Lemmas.PyObj3Init
import DsdVerif.Props.PyIdent
import DsdVerif.Props.PySingleton

namespace Dsd.PyComplexS3
open Dsd Gen PyObj3 CplxFull

theorem py_init_full_eq (st : ComplexS3.St) (self_ : Nat) (seq : List String) (sst : List Char) (name pre : Option String) (c : CKey3)
    (t : Int) (keys : List CKey3) :
    (py_ComplexS_init_full self_ seq sst name pre (some c) (some t) keys).exec st =
      (.ok (), initPost st self_ seq sst name pre c t keys) := PyObj3.py_init_full_eq st self_ seq sst name pre c t keys

theorem py_init_full_asserts (st : ComplexS3.St) (self_ : Nat) (seq : List String) (sst : List Char) (name pre : Option String)
    (canon : Option CKey3) (turns : Option Int) (keys : List CKey3) (h : canon = none ∨ turns = none) :
    (py_ComplexS_init_full self_ seq sst name pre canon turns keys).exec st = (.error .assertion, st) :=
  PyObj3.py_init_full_asserts st self_ seq sst name pre canon turns keys h

/-- the attributes of `ComplexS.Self` (Gen/PyComplexS.lean) among those of the new object -/
def toSelf (st : ComplexS3.St) : ComplexS.Self :=
  { _sequence := st._sequence, _structure := st._structure, _name := st._name, _turns := st._turns, _strand_table := st._strand_table,
    _pair_table := st._pair_table, _loop_index := st._loop_index, _exterior_loops := st._exterior_loops,
    _exterior_domains := st._exterior_domains, _enclosed_domains := st._enclosed_domains }

/-- on these attributes the whole `__init__` is the attribute initialisation pymethod.py reads off it -/
theorem py_init_attrs_eq_pymethod (st : ComplexS3.St) (self_ : Nat) (seq : List String) (sst : List Char) (name pre : Option String)
    (c : CKey3) (t : Int) (keys : List CKey3) :
    toSelf ((py_ComplexS_init_full self_ seq sst name pre (some c) (some t) keys).exec st).2 =
      py_ComplexS_init seq sst (name.getD (autoName st.cls_PREFIX st.cls_ID pre)) t := by
  rw [py_init_full_eq]; rfl

/-- the registration loop of `__init__` is what `Py.construct` assumes of the constructor -/
theorem py_init_registers_eq_construct (st : ComplexS3.St) (names : List (String × Nat)) (self_ : Nat) (seq : List String)
    (sst : List Char) (name pre : Option String) (c : CKey3) (t : Int) (keys : List CKey3) :
    (Py.construct self_ keys).exec ({ _instanceNames := names, _instanceCanon := st.cls_instanceCanon } : Py.SingletonCls CKey3) =
      (.ok self_, { _instanceNames := names,
                    _instanceCanon := ((py_ComplexS_init_full self_ seq sst name pre (some c) (some t) keys).exec st).2.cls_instanceCanon }) := by
  rw [py_init_full_eq]; rfl

/-- **the two sites agree.**  Whatever the translated `identifiers` returns for a request with a sequence - canonical form, name, turns,
    keys - `__init__`, called as `Singleton.__call__` calls it (the user's `name` / `prefix`, the new arguments of `identifiers`), on the
    same class (`PREFIX`, `ID`), stores that very name, that canonical form and those turns, and registers exactly those keys -/
theorem py_init_after_identifiers (st : ComplexS3.St) (reg : List CKey3) (self_ : Nat) (seq : List String) (sst : List Char)
    (name pre : Option String) (c : Option CKey3) (nm : Option String) (c' : CKey3) (t : Int) (keys : List CKey3)
    (h : py_ComplexS_identifiers reg st.cls_PREFIX st.cls_ID (some seq) sst name pre = .ok (c, nm, some (some c', t, keys))) :
    let st' := ((py_ComplexS_init_full self_ seq sst name pre (some c') (some t) keys).exec st).2
    some st'._name = nm ∧ st'._canon = c ∧ st'._turns = t ∧
      st'.cls_instanceCanon = register st.cls_instanceCanon keys self_ ∧
      st'.cls_ID = (if name.isNone then st.cls_ID + 1 else st.cls_ID) := by
  rw [PyIdent.py_ComplexS_identifiers_net] at h
  rw [py_init_full_eq]
  cases hi : complexIdentifiers (PyIdent.regOf reg st.cls_ID) seq sst with
  | error e => rw [hi] at h; cases h
  | ok ids =>
    rw [hi] at h
    simp only [Except.ok.injEq, Prod.mk.injEq, Option.some.injEq] at h
    obtain ⟨h1, h2, h3, h4, h5⟩ := h
    subst h1 h2 h3
    exact ⟨rfl, rfl, h4.symm ▸ rfl, rfl, rfl⟩

/-- `ComplexS(sequence, structure, name, prefix)` through the translated pieces: `identifiers` on the class's registered keys, then
    `Singleton.__call__` with the new arguments (its constructor step registers `rcplxs`: `py_init_registers_eq_construct`) -/
def pyComplexRequest (s : Py.SingletonCls CKey) (reg : List CKey) (pfx : String) (id fresh : Nat) (q : CplxReq) : Except Err (Option Nat) :=
  match py_ComplexS_identifiers reg pfx id q.seq q.sst q.name q.prefix_ with
  | .error e => .error e
  | .ok (canon, some nm, kw) => PySingleton.res s canon nm fresh ((kw.map (·.2.2)).getD [])
  | .ok (_, none, _) => .error (.fault "model")

/-- **the translated `identifiers` + the translated `Singleton.__call__` = `complexRequestFull`**, for every class state that represents
    the registry: the same object or the same exception (an exception of `identifiers` as `errOfOut` renders it) -/
theorem py_complex_request_eq_full (s : Py.SingletonCls CKey) (r : Reg CKey) (h : PySingletonL.Rep s r) (reg : List CKey)
    (hreg : ∀ k, reg.contains k = (r.findCanon k).isSome) (pfx : String) (fresh : Nat) (q : CplxReq) :
    pyComplexRequest s reg pfx r.autoId fresh q =
      match CplxFull.identifiers pfx r q with
      | .error e => .error (PyIdent.errOfOut e)
      | .ok _ => PySingletonL.toPy (complexRequestFull pfx r fresh q).2.1 := by
  unfold pyComplexRequest complexRequestFull
  rw [PyIdent.py_ComplexS_identifiers_eq pfx r reg hreg q]
  cases hi : CplxFull.identifiers pfx r q with
  | error e => rfl
  | ok x =>
    obtain ⟨canon, nm, kw⟩ := x
    have hk : ((Option.map (fun i => (some i.canon, (i.turns : Int), i.keys)) kw).map (·.2.2)).getD [] = (kw.map (·.keys)).getD [] := by
      cases kw <;> rfl
    show PySingleton.res s canon nm fresh ((Option.map (·.2.2) (Option.map (fun i => (some i.canon, (i.turns : Int), i.keys)) kw)).getD []) = _
    rw [hk, (PySingleton.py_call_eq_callFull s r h canon nm fresh _ q.name.isNone).1]

end Dsd.PyComplexS3

#print axioms Dsd.PyComplexS3.py_init_full_eq
#print axioms Dsd.PyComplexS3.py_init_full_asserts
#print axioms Dsd.PyComplexS3.py_init_attrs_eq_pymethod
#print axioms Dsd.PyComplexS3.py_init_registers_eq_construct
#print axioms Dsd.PyComplexS3.py_init_after_identifiers
#print axioms Dsd.PyComplexS3.py_complex_request_eq_full
