/-
C14, end to end on the reader model, continued: documents with complexes.

Stage 4: strand-notation complexes over declared strands.  What the model stores for a complex: the registry
object carries the *canonical form* (the smallest rotation of the declared description, `ckeyLt`) and, as keys, all
its rotations; the per-object state (`cstate`) carries the description *as declared* together with `turns`, the
number of strand rotations that lead from the canonical form to it; the node's children are the domain objects.
-/
import DsdVerif.Props.C14Sigma
import DsdVerif.Props.C02Canon
import DsdVerif.Lemmas.ReaderSigmaCplxAttr
import DsdVerif.Lemmas.ReaderSigmaKernel
import DsdVerif.Lemmas.ReaderSigmaDup

namespace Dsd.C14
open Dsd Dsd.PP Dsd.RState

/-- what the final state and dictionary say about a declared complex `name` with names `ns` and structure `sst` -/
def CplxRead (sl : Slots) (s' : RState) (d' : RDict) (name : String) (ns : List String) (sst : List Char) : Prop :=
  ∃ id o nd st, d'.complexes.lookup name = some id ∧
    s'.w.cplxObj id = some (sl.cplx, o) ∧ o.id = id ∧ o.name = name ∧
    -- the canonical form is the smallest rotation, the keys are all rotations
    o.canon ∈ C02.orbit (C02.nStrands ns) ns sst ∧
    (∀ x ∈ C02.orbit (C02.nStrands ns) ns sst, ckeyLt x o.canon = false) ∧
    (∀ x, x ∈ o.keys ↔ x ∈ C02.orbit (C02.nStrands ns) ns sst) ∧
    -- the object's own representation is the declared one
    s'.w.cstate.lookup id = some st ∧ st.seq = ns ∧ st.sst = sst ∧ st.canon = o.canon ∧ st.name = name ∧
    st.turns < C02.nStrands ns ∧ rotateN st.turns o.canon.1 o.canon.2 = .ok (ns, sst) ∧
    -- the domains are the dictionary's singletons
    s'.w.node id = some nd ∧ nd.kind = .cplx ∧ nd.cls = sl.cplx ∧
    nd.children.map some = (ns.filter (· != "+")).map (fun n => d'.domains.lookup n) ∧
    s'.w.isLive id = true ∧ id ∈ s'.w.held

theorem declRead4 (sl : Slots) (hdom : sl.dom < 4) (ds : List Sig.Decl) (hsys : Sig.Sys ds) (ss : List Sig.SDecl)
    (cs : List Sig.CSpec) (conc : List (Nat × (String × String × String))) (d : Sig.Decl) (hd : d ∈ ds) :
    DeclRead sl (Sig.S4 sl.dom sl.strand sl.cplx ds ss cs conc) (Sig.D4 ds ss cs) d := by
  obtain ⟨k, hk⟩ := List.getElem?_of_mem hd
  have hlt := Sig.getElem?_lt' _ _ _ hk
  obtain ⟨l1, l2⟩ := Sig.dDict_lookup ds hsys k d hk
  obtain ⟨o1, o2⟩ := Sig.S4_domObj sl.dom sl.strand sl.cplx hdom ds ss cs conc k d hk
  obtain ⟨v1, v2⟩ := Sig.S4_live_dom sl.dom sl.strand sl.cplx ds ss cs conc (2 * k) (by omega)
  obtain ⟨v3, v4⟩ := Sig.S4_live_dom sl.dom sl.strand sl.cplx ds ss cs conc (2 * k + 1) (by omega)
  refine ⟨2 * k, 2 * k + 1, _, _, by omega, l1, l2, o1, rfl, rfl, rfl, o2, rfl, rfl, rfl, v1, v3, v2, v4,
    Sig.reread_gen sl hdom ds hsys _ rfl k d hk, ?_⟩
  cases d with
  | dl n tk l => exact Sig.dSeq_lookup_dl ds k n tk l hk
  | sl n seq =>
    obtain ⟨q1, q2⟩ := Sig.dSeq_lookup ds k n seq hk
    obtain ⟨rc, hrc, hlen, _⟩ := Iupac.wc_sequence_exact .dna seq.toList.reverse
      (fun c hc => hsys.ok _ hd c (List.mem_reverse.mp hc))
    have hrc' : Iupac.reverseWcComplement .dna seq.toList = some rc := hrc
    refine ⟨q1, rc, hrc', by rw [hlen, List.length_reverse]; exact String.length_toList, ?_⟩
    show (Sig.dSeq ds).lookup (2 * k + 1) = _
    rw [q2, Sig.rcOf, hrc']; rfl

theorem strandRead4 (sl : Slots) (hstr : sl.strand < 4) (ds : List Sig.Decl) (hsys : Sig.Sys ds) (ss : List Sig.SDecl)
    (hss : Sig.SSys ds ss) (cs : List Sig.CSpec) (conc : List (Nat × (String × String × String))) (p : Sig.SDecl)
    (hp : p ∈ ss) :
    StrandRead sl (Sig.S4 sl.dom sl.strand sl.cplx ds ss cs conc) (Sig.D4 ds ss cs) p := by
  obtain ⟨j, hj⟩ := List.getElem?_of_mem hp
  obtain ⟨n1, n2, v1, v2⟩ := Sig.S4_strand sl.dom sl.strand sl.cplx hstr ds ss cs conc j p hj
  refine ⟨2 * ds.length + j, _, _, Sig.sDict_lookup ds ss hss.names j p hj, n2, rfl, rfl, rfl, n1, rfl, rfl, ?_,
    v1, v2⟩
  exact (Sig.idsOf_lookup ds hsys p.2 (hss.content p hp)).symm

/-- the complex part of the explicit final state -/
theorem cplxRead4 (sl : Slots) (hcc : sl.cplx < 4) (ds : List Sig.Decl) (ss : List Sig.SDecl) (cs : List Sig.CSpec)
    (hn : (cs.map (·.name)).Nodup) (conc : List (Nat × (String × String × String))) (c : Sig.CSpec) (hc : c ∈ cs)
    (hd : Rot.Descr' c.ns c.sst)
    (hch : (c.seq.filterMap id).map some = (c.ns.filter (· != "+")).map (fun n => (Sig.dDict ds).lookup n)) :
    CplxRead sl (Sig.S4 sl.dom sl.strand sl.cplx ds ss cs conc) (Sig.D4 ds ss cs) c.name c.ns c.sst := by
  obtain ⟨j, hj⟩ := List.getElem?_of_mem hc
  obtain ⟨a1, a2, a3, a4, a5⟩ := Sig.S4_cplx sl.dom sl.strand sl.cplx hcc ds ss cs conc j c hj
  obtain ⟨_, b2, b3, b4, b5⟩ := Sig.cIds_canon c.ns c.sst hd
  refine ⟨_, _, _, _, Sig.cDict_lookup _ cs hn j c hj, a2, rfl, rfl, b2, b3, ?_, a3, rfl, rfl, rfl, rfl, b4, b5,
    a1, rfl, rfl, hch, a4, a5⟩
  intro x
  exact List.mem_eraseDups

/-- **Stage 4 (strand-notation complexes).**  Domain declarations `ds`, composite domains `ss`, then
    `strand-complex` lines `cds` whose strand names are declared strands; each description — the strands' domain
    names joined by "+", with the declared dot-bracket — is a well-formed description (`C02.Descr`: names and
    structure aligned with the same breaks, balanced, over `( ) . +`, no empty strand); complex names are pairwise
    distinct and no declared complex is a rotation of an earlier one.  Then the read succeeds, the dictionary holds
    exactly the declared objects, and every complex is read as `CplxRead` says. -/
theorem read_scomplexes_sigma (sl : Slots) (hdom : sl.dom < 4) (hstr : sl.strand < 4) (hcx : sl.cplx < 4)
    (ds : List Sig.Decl) (hsys : Sig.Sys ds) (ss : List Sig.SDecl) (hss : Sig.SSys ds ss) (cds : List Sig.CDecl)
    (hstrands : ∀ c ∈ cds, c.strands ≠ [] ∧ ∀ n ∈ c.strands, n ∈ ss.map (·.1))
    (hdescr : ∀ c ∈ cds, C02.Descr (c.spec ds ss).ns c.sst)
    (hnames : (cds.map (·.name)).Nodup)
    (hnonrot : cds.Pairwise (fun a b => ((b.spec ds ss).ns, b.sst) ∉
      C02.orbit (C02.nStrands (a.spec ds ss).ns) (a.spec ds ss).ns a.sst)) :
    ∃ s' d', ({} : RState).readDoc sl [] [] (Sig.doc ds ++ (Sig.sdoc ss ++ Sig.cdoc cds)) {} = (s', .ok d') ∧
      d'.domains.map (·.1) = ds.flatMap (fun d => [d.name, d.name ++ "*"]) ∧ (d'.domains.map (·.1)).Nodup ∧
      d'.strands.map (·.1) = ss.map (·.1) ∧ (d'.strands.map (·.1)).Nodup ∧
      d'.complexes.map (·.1) = cds.map (·.name) ∧ (d'.complexes.map (·.1)).Nodup ∧
      d'.macrostates = [] ∧ d'.det = [] ∧ d'.con = [] ∧ d'.other = 0 ∧
      (∀ d ∈ ds, DeclRead sl s' d' d) ∧ (∀ p ∈ ss, StrandRead sl s' d' p) ∧
      (∀ c ∈ cds, CplxRead sl s' d' c.name (c.spec ds ss).ns c.sst) := by
  have hcsys : Sig.CSys ds ss cds :=
    ⟨hstrands, fun c hc => (C02.descr_iff _ _).mp (hdescr c hc), hnames, hnonrot⟩
  have hnm : ((cds.map (Sig.CDecl.spec ds ss)).map (·.name)) = cds.map (·.name) := by
    rw [List.map_map]; rfl
  refine ⟨_, _, Sig.readDoc_fresh4 sl hdom hstr hcx ds hsys ss hss cds hcsys, Sig.dDict_keys ds, ?_,
    Sig.sDict_keys ds ss, ?_, ?_, ?_, rfl, rfl, rfl, rfl, ?_, ?_, ?_⟩
  · show ((Sig.dDict ds).map (·.1)).Nodup
    rw [Sig.dDict_keys]; exact Sig.keys_nodup ds hsys.base hsys.distinct
  · show ((Sig.sDict ds ss).map (·.1)).Nodup
    rw [Sig.sDict_keys]; exact hss.names
  · show (Sig.cDict _ _).map (·.1) = _
    rw [Sig.cDict_keys, hnm]
  · show ((Sig.cDict _ _).map (·.1)).Nodup
    rw [Sig.cDict_keys, hnm]; exact hnames
  · exact fun d hd => declRead4 sl hdom ds hsys ss _ [] d hd
  · exact fun p hp => strandRead4 sl hstr ds hsys ss hss _ [] p hp
  · intro c hc
    exact cplxRead4 sl hcx ds ss _ (by rw [hnm]; exact hnames) [] (c.spec ds ss) (List.mem_map_of_mem hc)
      (hcsys.descr c hc) (Sig.scplx_children ds hsys ss hss c (hstrands c hc).2)

/-! ### non-vacuity of Stage 4 -/

def exDs : List Sig.Decl := [.dl "a" "short" 5, .dl "b" "long" 15]
def exSs : List Sig.SDecl := [("s", ["a", "b"]), ("t", ["b*", "a*"])]
def exCds : List Sig.CDecl :=
  [{ name := "c1", strands := ["s", "t"], sst := ['(', '(', '+', ')', ')'] },
   { name := "c2", strands := ["s"], sst := ['.', '.'] }]

theorem exDs_sys : Sig.Sys exDs := by
  refine ⟨?_, ?_, by decide⟩
  · intro d hd
    simp only [exDs, List.mem_cons, List.not_mem_nil, or_false] at hd
    rcases hd with rfl | rfl
    · exact baseName_a
    · exact baseName_b
  · intro d hd
    simp only [exDs, List.mem_cons, List.not_mem_nil, or_false] at hd
    rcases hd with rfl | rfl
    · exact Or.inl ⟨rfl, rfl⟩
    · exact Or.inr (Or.inl ⟨rfl, rfl⟩)

theorem exSs_sys : Sig.SSys exDs exSs := by
  refine ⟨?_, by decide, by decide⟩
  intro p hp n hn
  simp only [exSs, List.mem_cons, List.not_mem_nil, or_false] at hp
  rcases hp with rfl | rfl
  · simp only [List.mem_cons, List.not_mem_nil, or_false] at hn
    rcases hn with rfl | rfl
    · exact ⟨by decide, 0, _, rfl, Or.inl rfl⟩
    · exact ⟨by decide, 1, _, rfl, Or.inl rfl⟩
  · simp only [List.mem_cons, List.not_mem_nil, or_false] at hn
    rcases hn with rfl | rfl
    · exact ⟨by decide, 1, _, rfl, Or.inr rfl⟩
    · exact ⟨by decide, 0, _, rfl, Or.inr rfl⟩

theorem ex_descr1 : C02.Descr ["a", "b", "+", "b*", "a*"] ['(', '(', '+', ')', ')'] := by
  refine ⟨⟨rfl, ?_⟩, ⟨[some 4, some 3, none, some 1, some 0], by decide⟩, by decide, by decide⟩
  intro i
  match i with
  | 0 => decide
  | 1 => decide
  | 2 => decide
  | 3 => decide
  | 4 => decide
  | k + 5 => simp

theorem ex_descr2 : C02.Descr ["a", "b"] ['.', '.'] := by
  refine ⟨⟨rfl, ?_⟩, ⟨[none, none], by decide⟩, by decide, by decide⟩
  intro i
  match i with
  | 0 => decide
  | 1 => decide
  | k + 2 => simp

/-- the hypotheses of `read_scomplexes_sigma` hold for a two-stranded duplex and a single strand … -/
example : (∀ c ∈ exCds, c.strands ≠ [] ∧ ∀ n ∈ c.strands, n ∈ exSs.map (·.1)) ∧
    (∀ c ∈ exCds, C02.Descr (c.spec exDs exSs).ns c.sst) ∧ (exCds.map (·.name)).Nodup ∧
    exCds.Pairwise (fun a b => ((b.spec exDs exSs).ns, b.sst) ∉
      C02.orbit (C02.nStrands (a.spec exDs exSs).ns) (a.spec exDs exSs).ns a.sst) := by
  refine ⟨by decide, ?_, by decide, by decide⟩
  intro c hc
  simp only [exCds, List.mem_cons, List.not_mem_nil, or_false] at hc
  rcases hc with rfl | rfl
  · exact ex_descr1
  · exact ex_descr2

/-- … and the model stores the duplex with its canonical rotation, its own representation and its domain
    singletons (checked by evaluation) -/
example :
    (match ({} : RState).readDoc {} [] [] (Sig.doc exDs ++ (Sig.sdoc exSs ++ Sig.cdoc exCds)) {} with
     | (s', .ok d') => (d'.complexes, (s'.w.node 6).map (·.children), (s'.w.cplxObj 6).map (fun q => q.2.canon),
         (s'.w.cstate.lookup 6).map (fun st => (st.seq, st.sst, st.turns)))
     | (_, .error _) => ([], none, none, none)) =
    ([("c1", 6), ("c2", 7)], some [0, 2, 3, 1], some (["a", "b", "+", "b*", "a*"], ['(', '(', '+', ')', ')']),
      some (["a", "b", "+", "b*", "a*"], ['(', '(', '+', ')', ')'], 0)) := by
  rfl

/-! ### Stage 5: kernel-notation complexes -/

/-- **Stage 5 (kernel-notation complexes, without composite domains).**  After the Stage-4 document come
    `kernel-complex` lines `kds`: each pattern resolves (`resolveKernel` with the reader's budget) to names `k.ns` and
    structure `k.sst`, every name other than "+" is a declared domain name or a complement, an optional
    concentration `(mode, value, unit)` may follow.  All complexes of the document (both notations) are well-formed
    descriptions with pairwise distinct names, none a rotation of an earlier one.  Then the read succeeds, the
    dictionary holds exactly the declared objects, every complex is read as `CplxRead` says (for a kernel complex
    with the resolved names and structure), and the concentration table holds exactly the given triple. -/
theorem read_kernels_sigma (sl : Slots) (hdom : sl.dom < 4) (hstr : sl.strand < 4) (hcx : sl.cplx < 4)
    (ds : List Sig.Decl) (hsys : Sig.Sys ds) (ss : List Sig.SDecl) (hss : Sig.SSys ds ss) (cds : List Sig.CDecl)
    (kds : List Sig.KDecl)
    (hstrands : ∀ c ∈ cds, c.strands ≠ [] ∧ ∀ n ∈ c.strands, n ∈ ss.map (·.1))
    (hres : ∀ k ∈ kds, resolveKernel (treeSize 1000 k.pat + 2) k.pat = .ok (k.ns, k.sst))
    (hkdoms : ∀ k ∈ kds, ∀ n ∈ k.ns, n ≠ "+" → ∃ d ∈ ds, n = d.name ∨ n = d.name ++ "*")
    (hdescr : ∀ c ∈ cds.map (Sig.CDecl.spec ds ss) ++ kds.map (Sig.KDecl.spec ds), C02.Descr c.ns c.sst)
    (hnames : ((cds.map (Sig.CDecl.spec ds ss) ++ kds.map (Sig.KDecl.spec ds)).map (·.name)).Nodup)
    (hnonrot : (cds.map (Sig.CDecl.spec ds ss) ++ kds.map (Sig.KDecl.spec ds)).Pairwise
      (fun a b => (b.ns, b.sst) ∉ C02.orbit (C02.nStrands a.ns) a.ns a.sst)) :
    ∃ s' d', ({} : RState).readDoc sl [] []
        (Sig.doc ds ++ (Sig.sdoc ss ++ (Sig.cdoc cds ++ Sig.kdoc kds))) {} = (s', .ok d') ∧
      d'.domains.map (·.1) = ds.flatMap (fun d => [d.name, d.name ++ "*"]) ∧ (d'.domains.map (·.1)).Nodup ∧
      d'.strands.map (·.1) = ss.map (·.1) ∧ (d'.strands.map (·.1)).Nodup ∧
      d'.complexes.map (·.1) = cds.map (·.name) ++ kds.map (·.name) ∧ (d'.complexes.map (·.1)).Nodup ∧
      d'.macrostates = [] ∧ d'.det = [] ∧ d'.con = [] ∧ d'.other = 0 ∧
      (∀ d ∈ ds, DeclRead sl s' d' d) ∧ (∀ p ∈ ss, StrandRead sl s' d' p) ∧
      (∀ c ∈ cds, CplxRead sl s' d' c.name (c.spec ds ss).ns c.sst) ∧
      (∀ k ∈ kds, CplxRead sl s' d' k.name k.ns k.sst ∧
        ∃ id, d'.complexes.lookup k.name = some id ∧ s'.conc.lookup id = k.conc) := by
  have hdescr' : ∀ c ∈ cds.map (Sig.CDecl.spec ds ss) ++ kds.map (Sig.KDecl.spec ds), Rot.Descr' c.ns c.sst :=
    fun c hc => (C02.descr_iff _ _).mp (hdescr c hc)
  have hallnm : (cds.map (Sig.CDecl.spec ds ss) ++ kds.map (Sig.KDecl.spec ds)).map (·.name) =
      cds.map (·.name) ++ kds.map (·.name) := by
    rw [List.map_append, List.map_map, List.map_map]; rfl
  have hcsys : Sig.CSys ds ss cds := by
    refine ⟨hstrands, fun c hc => hdescr' _ (List.mem_append_left _ (List.mem_map_of_mem hc)), ?_, ?_⟩
    · rw [hallnm] at hnames; exact (List.nodup_append.mp hnames).1
    · have := (List.pairwise_append.mp hnonrot).1
      rw [List.pairwise_map] at this
      exact this
  have hksys : Sig.KSys ds (cds.map (Sig.CDecl.spec ds ss)) kds := by
    refine ⟨hres, ?_, hdescr', hnames, hnonrot⟩
    intro k hk n hn hne
    obtain ⟨d, hd, hnd⟩ := hkdoms k hk n hn hne
    obtain ⟨i, hi⟩ := List.getElem?_of_mem hd
    exact ⟨i, d, hi, hnd⟩
  refine ⟨_, _, Sig.readDoc_fresh5 sl hdom hstr hcx ds hsys ss hss cds hcsys kds hksys, Sig.dDict_keys ds, ?_,
    Sig.sDict_keys ds ss, ?_, ?_, ?_, rfl, rfl, rfl, rfl, ?_, ?_, ?_, ?_⟩
  · show ((Sig.dDict ds).map (·.1)).Nodup
    rw [Sig.dDict_keys]; exact Sig.keys_nodup ds hsys.base hsys.distinct
  · show ((Sig.sDict ds ss).map (·.1)).Nodup
    rw [Sig.sDict_keys]; exact hss.names
  · show (Sig.cDict _ _).map (·.1) = _
    rw [Sig.cDict_keys, hallnm]
  · show ((Sig.cDict _ _).map (·.1)).Nodup
    rw [Sig.cDict_keys]; exact hnames
  · exact fun d hd => declRead4 sl hdom ds hsys ss _ _ d hd
  · exact fun p hp => strandRead4 sl hstr ds hsys ss hss _ _ p hp
  · intro c hc
    exact cplxRead4 sl hcx ds ss _ hnames _ (c.spec ds ss) (List.mem_append_left _ (List.mem_map_of_mem hc))
      (hdescr' _ (List.mem_append_left _ (List.mem_map_of_mem hc)))
      (Sig.scplx_children ds hsys ss hss c (hstrands c hc).2)
  · intro k hk
    have hmem : k.spec ds ∈ cds.map (Sig.CDecl.spec ds ss) ++ kds.map (Sig.KDecl.spec ds) :=
      List.mem_append_right _ (List.mem_map_of_mem hk)
    refine ⟨cplxRead4 sl hcx ds ss _ hnames _ (k.spec ds) hmem (hdescr' _ hmem)
      (Sig.kseq_children ds hsys k.ns (hksys.doms k hk)), ?_⟩
    obtain ⟨j, hj⟩ := List.getElem?_of_mem hk
    have hj' : (cds.map (Sig.CDecl.spec ds ss) ++ kds.map (Sig.KDecl.spec ds))[cds.length + j]? = some (k.spec ds) := by
      rw [List.getElem?_append_right (by simp)]
      simp [hj]
    refine ⟨_, Sig.cDict_lookup _ _ hnames _ _ hj', ?_⟩
    show (Sig.kConc (Sig.base4 ds ss + cds.length) kds).lookup _ = _
    rw [← Nat.add_assoc]
    exact Sig.kConc_lookup _ kds j k hj

/-! ### non-vacuity of Stage 5 -/

def exKds : List Sig.KDecl :=
  [{ name := "k1", pat := [.tok "a", .grp [.tok "+"]], ns := ["a", "+", "a*"], sst := ['(', '+', ')'],
     conc := some ("initial", "5", "nM") },
   { name := "k2", pat := [.tok "b"], ns := ["b"], sst := ['.'], conc := none }]

theorem ex_descr3 : C02.Descr ["a", "+", "a*"] ['(', '+', ')'] := by
  refine ⟨⟨rfl, ?_⟩, ⟨[some 2, none, some 0], by decide⟩, by decide, by decide⟩
  intro i
  match i with
  | 0 => decide
  | 1 => decide
  | 2 => decide
  | k + 3 => simp

theorem ex_descr4 : C02.Descr ["b"] ['.'] := by
  refine ⟨⟨rfl, ?_⟩, ⟨[none], by decide⟩, by decide, by decide⟩
  intro i
  match i with
  | 0 => decide
  | k + 1 => simp

/-- the hypotheses of `read_kernels_sigma` hold for the Stage-4 example extended by two kernel complexes … -/
example : (∀ k ∈ exKds, resolveKernel (treeSize 1000 k.pat + 2) k.pat = .ok (k.ns, k.sst)) ∧
    (∀ k ∈ exKds, ∀ n ∈ k.ns, n ≠ "+" → ∃ d ∈ exDs, n = d.name ∨ n = d.name ++ "*") ∧
    (∀ c ∈ exCds.map (Sig.CDecl.spec exDs exSs) ++ exKds.map (Sig.KDecl.spec exDs), C02.Descr c.ns c.sst) ∧
    ((exCds.map (Sig.CDecl.spec exDs exSs) ++ exKds.map (Sig.KDecl.spec exDs)).map (·.name)).Nodup ∧
    (exCds.map (Sig.CDecl.spec exDs exSs) ++ exKds.map (Sig.KDecl.spec exDs)).Pairwise
      (fun a b => (b.ns, b.sst) ∉ C02.orbit (C02.nStrands a.ns) a.ns a.sst) := by
  refine ⟨by decide, by decide, ?_, by decide, by decide⟩
  intro c hc
  simp only [exCds, exKds, List.map_cons, List.map_nil, List.cons_append, List.nil_append, List.mem_cons,
    List.not_mem_nil, or_false] at hc
  rcases hc with rfl | rfl | rfl | rfl
  · exact ex_descr1
  · exact ex_descr2
  · exact ex_descr3
  · exact ex_descr4

/-- … and the model files the kernel complexes with their domain singletons and the concentration
    (checked by evaluation) -/
example :
    (match ({} : RState).readDoc {} [] []
        (Sig.doc exDs ++ (Sig.sdoc exSs ++ (Sig.cdoc exCds ++ Sig.kdoc exKds))) {} with
     | (s', .ok d') => (d'.complexes, (s'.w.node 8).map (·.children),
         (s'.w.cstate.lookup 8).map (fun st => (st.seq, st.sst)), s'.conc)
     | (_, .error _) => ([], none, none, [])) =
    ([("c1", 6), ("c2", 7), ("k1", 8), ("k2", 9)], some [0, 1], some (["a", "+", "a*"], ['(', '+', ')']),
      [(8, ("initial", "5", "nM"))]) := by
  rfl

/-! ### the converse of the "no two rotations" hypothesis -/

/-- **a document that declares a rotation of an already declared complex under a new name is refused** with
    SingletonError: the hypothesis `hnonrot` of Stage 4 cannot be dropped.  (Under the *same* name the request is
    consistent and returns the existing object.) -/
theorem read_duplicate_refused (sl : Slots) (hdom : sl.dom < 4) (hstr : sl.strand < 4) (hcx : sl.cplx < 4)
    (ds : List Sig.Decl) (hsys : Sig.Sys ds) (ss : List Sig.SDecl) (hss : Sig.SSys ds ss) (cds : List Sig.CDecl)
    (hstrands : ∀ c ∈ cds, c.strands ≠ [] ∧ ∀ n ∈ c.strands, n ∈ ss.map (·.1))
    (hdescr : ∀ c ∈ cds, C02.Descr (c.spec ds ss).ns c.sst)
    (hnames : (cds.map (·.name)).Nodup)
    (hnonrot : cds.Pairwise (fun a b => ((b.spec ds ss).ns, b.sst) ∉
      C02.orbit (C02.nStrands (a.spec ds ss).ns) (a.spec ds ss).ns a.sst))
    (c : Sig.CDecl) (hc1 : c.strands ≠ [] ∧ ∀ n ∈ c.strands, n ∈ ss.map (·.1))
    (hc2 : C02.Descr (c.spec ds ss).ns c.sst) (hc3 : ∀ a ∈ cds, a.name ≠ c.name)
    (a : Sig.CDecl) (ha : a ∈ cds)
    (hrot : ((c.spec ds ss).ns, c.sst) ∈ C02.orbit (C02.nStrands (a.spec ds ss).ns) (a.spec ds ss).ns a.sst) :
    ∃ s', ({} : RState).readDoc sl [] []
        (Sig.doc ds ++ (Sig.sdoc ss ++ (Sig.cdoc cds ++ [.grp (Sig.scplxLine c.name c.strands c.sst)]))) {} =
      (s', .error .singleton) :=
  Sig.dup_refused sl hdom hstr hcx ds hsys ss hss cds
    ⟨hstrands, fun c hc => (C02.descr_iff _ _).mp (hdescr c hc), hnames, hnonrot⟩ c hc1
    ((C02.descr_iff _ _).mp hc2) hc3 a ha hrot

def exDup : Sig.CDecl := { name := "c3", strands := ["t", "s"], sst := ['(', '(', '+', ')', ')'] }

theorem ex_descr5 : C02.Descr ["b*", "a*", "+", "a", "b"] ['(', '(', '+', ')', ')'] := by
  refine ⟨⟨rfl, ?_⟩, ⟨[some 4, some 3, none, some 1, some 0], by decide⟩, by decide, by decide⟩
  intro i
  match i with
  | 0 => decide
  | 1 => decide
  | 2 => decide
  | 3 => decide
  | 4 => decide
  | k + 5 => simp

/-- non-vacuity: the duplex `s t` declared again as `t s` (a rotation of `c1`) under the new name `c3` satisfies
    the hypotheses of `read_duplicate_refused` … -/
example : (exDup.strands ≠ [] ∧ ∀ n ∈ exDup.strands, n ∈ exSs.map (·.1)) ∧
    C02.Descr (exDup.spec exDs exSs).ns exDup.sst ∧ (∀ a ∈ exCds, a.name ≠ exDup.name) ∧
    ((exDup.spec exDs exSs).ns, exDup.sst) ∈
      C02.orbit (C02.nStrands (({ name := "c1", strands := ["s", "t"], sst := ['(', '(', '+', ')', ')'] } : Sig.CDecl).spec
        exDs exSs).ns) (({ name := "c1", strands := ["s", "t"], sst := ['(', '(', '+', ')', ')'] } : Sig.CDecl).spec
        exDs exSs).ns ['(', '(', '+', ')', ')'] := by
  refine ⟨by decide, ex_descr5, by decide, by decide⟩

/-- … is refused by the model with SingletonError (checked by evaluation) -/
example :
    (({} : RState).readDoc {} [] []
      (Sig.doc exDs ++ (Sig.sdoc exSs ++ (Sig.cdoc exCds ++
        [.grp (Sig.scplxLine exDup.name exDup.strands exDup.sst)]))) {}).2 matches .error .singleton := by
  rfl

end Dsd.C14
