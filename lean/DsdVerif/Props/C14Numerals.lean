import DsdVerif.Props.C14Text
import Std.Data.String.ToNat

/-!
C14 — numerals.  The reader theorems describe a `length` statement by `Sig.LenTok tk l` ("the token `tk` denotes `l`") because
`String.toNat?` — the model's `int(…)` — does not reduce in the kernel.  For the tokens that actually occur in rendered documents, the
decimal numerals `Nat.repr l`, that side condition is discharged here once and for all (core's `Nat.toNat?_repr`): reading
`length n = <numeral of l>` gives a domain of length `l`, for every `l`, with no hypothesis about `int`.
-/
namespace Dsd.C14
open Dsd Dsd.PP Dsd.Gen Dsd.RState
open Dsd.TextSig (renderSys DeclText)

/-- a decimal digit is a character of the grammar's numeral alphabet (`pyparsing.nums`, regenerated from the source) -/
theorem isDigit_mem_nums (c : Char) (h : c.isDigit = true) : c ∈ pp_nums := by
  have h' : 48 ≤ c.toNat ∧ c.toNat ≤ 57 := by
    simp [Char.isDigit] at h
    exact ⟨h.1, h.2⟩
  have hc : c = Char.ofNat c.toNat := (Char.ofNat_toNat c).symm
  have : c.toNat = 48 ∨ c.toNat = 49 ∨ c.toNat = 50 ∨ c.toNat = 51 ∨ c.toNat = 52 ∨ c.toNat = 53 ∨ c.toNat = 54 ∨
      c.toNat = 55 ∨ c.toNat = 56 ∨ c.toNat = 57 := by omega
  rcases this with e | e | e | e | e | e | e | e | e | e <;> (rw [hc, e]; decide)

/-- the decimal numeral of any number is a token of the grammar's `number` -/
theorem digits_repr (n : Nat) : C13.Digits (Nat.repr n).toList := by
  rw [Nat.toList_repr]
  exact ⟨Nat.toDigits_ne_nil, fun c hc => isDigit_mem_nums c (Nat.isDigit_of_mem_toDigits (by omega) (by omega) hc)⟩

private theorem not_isNat_of_letter (s : String) (c : Char) (hc : c ∈ s.toList) (hd : c.isDigit = false) (hu : c ≠ '_') :
    s.isNat = false := by
  cases h : s.isNat with
  | false => rfl
  | true =>
    rcases (String.isNat_iff.mp h).2.1 c hc with h1 | h1
    · rw [hd] at h1; cases h1
    · exact absurd h1 hu

private theorem repr_ne_of_not_isNat (n : Nat) (s : String) (h : s.isNat = false) : Nat.repr n ≠ s := by
  intro e
  have := Nat.isNat_repr n
  rw [e, h] at this
  cases this

/-- **`int(str(l)) = l`, in the form the reader theorems need**: the numeral of `l` is a length token denoting `l` -/
theorem lenTok_repr (l : Nat) : Sig.LenTok (Nat.repr l) l :=
  Or.inr (Or.inr ⟨repr_ne_of_not_isNat l _ (not_isNat_of_letter _ 's' (by decide) (by decide) (by decide)),
                  repr_ne_of_not_isNat l _ (not_isNat_of_letter _ 'l' (by decide) (by decide) (by decide)),
                  Nat.toNat?_repr l⟩)

/-- the declaration `length n = <numeral of l>` meets the reader's and the text's side conditions -/
theorem lengthDecl_ok (n : String) (l : Nat) (hn : C13.Ident n.toList) :
    (Sig.Decl.dl n (Nat.repr l) l).OK ∧ DeclText (.dl n (Nat.repr l) l) :=
  ⟨lenTok_repr l, hn, Or.inr (Or.inr (digits_repr l))⟩

/-- **domain lengths end to end, for every length, without a hypothesis about numerals**: the text
    `length n₁ = l₁ ⏎ length n₂ = l₂ ⏎ …` (decimal numerals, distinct identifiers) parses, is read without error, and the dictionary
    holds every declared domain and its complement as `read_pil_domains_text` says — in particular with length `lᵢ` -/
theorem read_pil_lengths_text (sl : Slots) (hdom : sl.dom < 4) (decls : List (String × Nat)) (hne : decls ≠ [])
    (hid : ∀ p ∈ decls, C13.Ident p.1.toList) (hnd : (decls.map (·.1)).Nodup) :
    let ds := decls.map (fun p => Sig.Decl.dl p.1 (Nat.repr p.2) p.2)
    ∃ lines s' d', parseDoc pil_env pil_grammar (renderSys ds [] [] []) = some lines ∧
      ({} : RState).readDoc sl [] [] lines {} = (s', .ok d') ∧
      d'.domains.map (·.1) = ds.flatMap (fun d => [d.name, d.name ++ "*"]) ∧ (d'.domains.map (·.1)).Nodup ∧
      ∀ d ∈ ds, DeclRead sl s' d' d := by
  intro ds
  have hne' : ds ≠ [] := by
    cases decls with
    | nil => exact absurd rfl hne
    | cons _ _ => simp [ds]
  have hsys : Sig.Sys ds := by
    refine ⟨?_, ?_, ?_⟩
    · intro d hd
      obtain ⟨p, hp, rfl⟩ := List.mem_map.mp hd
      exact baseName_of_ident p.1 (hid p hp)
    · intro d hd
      obtain ⟨p, hp, rfl⟩ := List.mem_map.mp hd
      exact lenTok_repr p.2
    · have : ds.map Sig.Decl.name = decls.map (·.1) := by
        simp [ds, List.map_map, Function.comp_def, Sig.Decl.name]
      rw [this]; exact hnd
  have ht : ∀ d ∈ ds, DeclText d := by
    intro d hd
    obtain ⟨p, hp, rfl⟩ := List.mem_map.mp hd
    exact (lengthDecl_ok p.1 p.2 (hid p hp)).2
  obtain ⟨lines, s', d', h1, h2, h3, h4, _, _, _, _, _, _, h5⟩ := read_pil_domains_text sl hdom ds hne' hsys ht
  exact ⟨lines, s', d', h1, h2, h3, h4, h5⟩

end Dsd.C14
