import DsdVerif.Model.Complex
import DsdVerif.Lemmas.Locus
import DsdVerif.Props.C06Loci
import DsdVerif.Props.C07Rot
import DsdVerif.Props.C08Loop
import DsdVerif.Lemmas.Breaks

namespace Dsd.C07
open Dsd Dsd.Bracket Dsd.C06

/-! C07 on loci: the pair table of the rotated structure is the re-indexed pair table of the original —
the mapping `rotate_pairtable_loc(loc, 1) = (wrap(loc[0] - 1, n), loc[1])`. -/

/-- `rotate_pairtable_loc(loc, k)` for `n` strands -/
def rotLoc (n : Nat) (k : Int) (l : Locus) : Locus := (wrap ((l.1 : Int) - k) n, l.2)

/-- a structure list with non-empty strands, balanced, over `( ) . +` -/
structure WFStruct (sst : List Char) (pt : PairTable) : Prop where
  ok : makePairTable sst '+' = .ok pt
  nonempty : ∀ s ∈ splitOn '+' sst, s ≠ []

/-- **locus form of the rotation theorem**: for aligned `seq`/`sst` with at least two strands, the rotated structure
    is well-formed and its pair table is the original one re-indexed by `rotate_pairtable_loc(·, 1)`:
    the first strand becomes the last, every other strand index drops by one, positions inside strands are kept. -/
theorem rotateOnce_pairtable (seq : List String) (sst : List Char) (pt : PairTable)
    (hal : Aligned seq sst) (hw : WFStruct sst pt) (hplus : "+" ∈ seq) :
    ∃ seq' sst' pt', rotateOnce seq sst = .ok (seq', sst') ∧ WFStruct sst' pt' ∧ pt'.length = pt.length ∧
      (∀ l, (chAt (splitOn '+' sst) l).isSome →
        ptGet pt' (rotLoc pt.length 1 l) = (ptGet pt l).map (rotLoc pt.length 1)) ∧
      pt'.map List.length = (pt.drop 1 ++ pt.take 1).map List.length := by
  obtain ⟨seq', sst', pt', h1, h2, h3, h4, h5, h6⟩ := Brk.rot_main seq sst pt hal hw.ok hw.nonempty hplus
  refine ⟨seq', sst', pt', h1, ⟨h2, h3⟩, ?_, ?_, h4⟩
  · have := congrArg List.length h4
    simp only [List.length_map, List.length_append, List.length_drop, List.length_take] at this
    omega
  · intro l hl
    have hv : ValidL (pt.map List.length) l := by
      rw [mpt_shape sst '+' pt hw.ok]
      cases hc : chAt (splitOn '+' sst) l with
      | none => rw [hc] at hl; simp at hl
      | some c => exact getL_valid _ l c hc
    exact h6 l hv

/-- the pair-table generator's step is the inverse re-indexing (`rotate_pairtable_loc(·, -1)`):
    applying it to the table of the rotated structure gives back the original table -/
theorem rotatePtOnce_inverts {α} (seq : List String) (sst : List Char) (pt : PairTable) (stab : List (List α))
    (hal : Aligned seq sst) (hw : WFStruct sst pt) (hplus : "+" ∈ seq) (hs : stab.length = pt.length) :
    ∃ seq' sst' pt', rotateOnce seq sst = .ok (seq', sst') ∧ makePairTable sst' '+' = .ok pt' ∧
      (rotatePtOnce (stab.drop 1 ++ stab.take 1) pt').2 = pt ∧
      (rotatePtOnce (stab.drop 1 ++ stab.take 1) pt').1 = stab := by
  obtain ⟨seq', sst', pt', h1, h2, h3, h4, h5, h6⟩ := Brk.rot_main seq sst pt hal hw.ok hw.nonempty hplus
  obtain ⟨syms, t, L, _⟩ := Split.mpt_linF sst '+' pt hw.ok
  have hn' : pt'.length = pt.length := by
    have := congrArg List.length h4
    simp only [List.length_map, List.length_append, List.length_drop, List.length_take] at this
    omega
  have hs' : (stab.drop 1 ++ stab.take 1).length = pt'.length := by
    simp only [List.length_append, List.length_drop, List.length_take]; omega
  obtain ⟨s1, s2⟩ := rotatePtOnce_spec (stab.drop 1 ++ stab.take 1) pt' (by omega) hs'
  refine ⟨seq', sst', pt', h1, h2, ?_, ?_⟩
  · rw [s2, hn']
    exact Brk.rot_back pt pt' pt.length rfl h5 h4 (fun l m h => L.entry_lt l m h) h6
  · rw [s1, hs', hn']
    exact Brk.rot_list_back stab pt.length hs (by omega)

/-- connectivity is invariant under rotation (make_loop_index succeeds on the rotated table iff on the original) -/
theorem connected_rotation_invariant (seq : List String) (sst : List Char) (pt : PairTable)
    (hal : Aligned seq sst) (hw : WFStruct sst pt) (hplus : "+" ∈ seq) :
    ∃ seq' sst' pt', rotateOnce seq sst = .ok (seq', sst') ∧ makePairTable sst' '+' = .ok pt' ∧
      ((∃ lo, makeLoopIndex pt false = .ok lo) ↔ (∃ lo', makeLoopIndex pt' false = .ok lo')) := by
  obtain ⟨seq', sst', pt', h1, h2, h3, h4, h5, h6⟩ := Brk.rot_main seq sst pt hal hw.ok hw.nonempty hplus
  obtain ⟨syms, t, L, _⟩ := Split.mpt_linF sst '+' pt hw.ok
  obtain ⟨syms', t', L', _⟩ := Split.mpt_linF sst' '+' pt' h2
  have hn' : pt'.length = pt.length := by
    have := congrArg List.length h4
    simp only [List.length_map, List.length_append, List.length_drop, List.length_take] at this
    omega
  have hpos : ∀ (sst : List Char) (pt : PairTable) (syms : List (List Sym)) (t : List (Option Nat)),
      makePairTable sst '+' = .ok pt → (∀ s ∈ splitOn '+' sst, s ≠ []) → Split.LinF syms pt t →
      ∀ k ∈ syms.map List.length, 0 < k := by
    intro sst pt syms t hok hne L k hk
    rw [← L.shape, mpt_shape sst '+' pt hok] at hk
    obtain ⟨s, hs1, hs2⟩ := List.mem_map.mp hk
    have := hne s hs1
    rw [← hs2]
    exact List.length_pos_iff.mpr this
  refine ⟨seq', sst', pt', h1, h2, ?_⟩
  rw [Brk.plain_iff_connL L (hpos sst pt syms t hw.ok hw.nonempty L),
    Brk.plain_iff_connL L' (hpos sst' pt' syms' t' h2 h3 L'), hn']
  exact Brk.connL_rot pt pt' pt.length rfl h4 (fun l m h => L.entry_lt l m h) h6

end Dsd.C07
