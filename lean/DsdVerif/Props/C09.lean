/- C09 — splitting yields exactly the connected components: theorems are in Props/C09Split.lean. -/
import DsdVerif.Props.C09Split
