/- C09 — theorems are being added; see harness/props/c09.py THEOREMS for the audited list. -/
import DsdVerif.Model.Complex
