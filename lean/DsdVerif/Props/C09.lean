/- C09 — splitting yields exactly the connected components: the utility theorems are in Props/C09Split.lean, the
   object-level theorems about `split()` on the World model in Props/C09Obj.lean. -/
import DsdVerif.Props.C09Split
import DsdVerif.Props.C09Obj
