import DsdVerif.Props.C13Tabs
import DsdVerif.Lemmas.PilGaps

namespace Dsd.C13
open Dsd Dsd.PP Dsd.Gen Dsd.PP.Tabs
open Dsd.Pil (StmtText StmtTextL StmtTextT Tail eolG)

/-! C13, "arbitrary spaces and TABS at every token boundary".  For every statement kind a layout template
(`Tabs.Piece`: tokens and separators, a separator marked `true` must be non-empty) lists ALL token boundaries of the
statement; the summary theorem of the kind says: for every list of blank/tab separators `gaps` that fits the template
(`Tabs.SepsOK tmpl gaps`: one separator per boundary, made of blanks and tabs, non-empty where marked), the text
`Tabs.renderW tmpl gaps` is a statement text (`Pil.StmtTextT`) for the tree — hence parses to it inside any
document, in any line-level layout (`document_tabs_rt`).  Where the grammar itself restricts a boundary the template
says so: a mandatory separator is marked `true`; where no gap is possible at all (inside combined tokens such as
`a*`, `/M/s`, numbers) the template has a single token.  Each restriction comes with a kernel-checked example. -/

/-! ### generic constructors -/

theorem render_cons_tok (s : List Char) (ps : List Piece) (ks : List Nat) :
    render (.tok s :: ps) ks = s ++ render ps ks := rfl

/-- a statement text that is the rendering of a template -/
theorem stmtTextB_of_render (tm : List Piece) (ks : List Nat) (t : Tree) (c : Char) (s0 : List Char)
    (ps : List Piece) (htm : tm = .tok (c :: s0) :: ps) (hc : Pil.StartCh c) (htok : ToksOK tm)
    (hne : ToksNonempty tm) (N : Nat) (hN : N ≤ 4 * tokCount tm + 100)
    (hok : ∀ (X : List Char) (NE : Nat) (p : Pos), Tail X →
      Ok pil_env NE {} eolG { rest := X, past := false } (p, []) →
      Ok pil_env (max N (NE + 30)) {} pil_stmt { rest := render tm ks ++ X, past := false } (p, [t])) :
    StmtTextB (render tm ks) t := by
  refine ⟨⟨c, ?_, hc⟩, notab_render tm ks htok, N, ?_, hok⟩
  · rw [htm, render_cons_tok]; rfl
  · have := tokCount_le tm ks hne
    omega

theorem toksOK_sepToks (ds : List (List Char)) (tl : List Piece) (h : ∀ d ∈ ds, '\t' ∉ d) (htl : ToksOK tl) :
    ToksOK (ds.flatMap (fun d => [Piece.sep true, Piece.tok d]) ++ tl) := by
  induction ds with
  | nil => exact htl
  | cons d ds ih => exact ⟨h d (by simp), ih (fun x hx => h x (List.mem_cons_of_mem _ hx))⟩

theorem toksNonempty_sepToks (ds : List (List Char)) (tl : List Piece) (h : ∀ d ∈ ds, d ≠ []) (htl : ToksNonempty tl) :
    ToksNonempty (ds.flatMap (fun d => [Piece.sep true, Piece.tok d]) ++ tl) := by
  induction ds with
  | nil => exact htl
  | cons d ds ih => exact ⟨h d (by simp), ih (fun x hx => h x (List.mem_cons_of_mem _ hx))⟩

theorem tokCount_sepToks (ds : List (List Char)) (tl : List Piece) :
    tokCount (ds.flatMap (fun d => [Piece.sep true, Piece.tok d]) ++ tl) = ds.length + tokCount tl := by
  induction ds with
  | nil => simp
  | cons d ds ih =>
    simp only [List.flatMap_cons, List.cons_append, List.nil_append, tokCount, ih, List.length_cons]
    omega

theorem domName_ne_nil (d : List Char) (h : DomName d) : d ≠ [] := by
  obtain ⟨base, st, rfl, hb⟩ := h
  intro e
  have := hb.1
  cases base with
  | nil => exact this rfl
  | cons c cs => simp at e

/-! ### `strand` / `sup-sequence` -/

/-- every token boundary of `strand name = d1 d2 …`: after the keyword and between the domains a separator is
    mandatory; around the assignment sign and at the end it is optional.  (A domain such as `a*` is one combined
    token: no boundary inside.) -/
def strandTmpl (kw name : List Char) (sign : Char) (d : List Char) (ds : List (List Char)) : List Piece :=
  [.tok kw, .sep true, .tok name, .sep false, .tok [sign], .sep false, .tok d] ++
    (ds.flatMap (fun x => [Piece.sep true, Piece.tok x]) ++ [.sep false])

/-- the blank version: any amounts of blanks fitting the template -/
theorem strand_blanks (kw : List Char) (hkw : kw = "strand".toList ∨ kw = "sup-sequence".toList)
    (name d : List Char) (ds : List (List Char)) (sign : Char) (hs : sign = '=' ∨ sign = ':')
    (hn : Ident name) (hd : ∀ x ∈ d :: ds, DomName x) (ks : List Nat)
    (hk : CountsOK (strandTmpl kw name sign d ds) ks) :
    StmtTextB (render (strandTmpl kw name sign d ds) ks)
      (.grp [.tok "composite-domain", tokOf name, .grp ((d :: ds).map tokOf)]) := by
  obtain ⟨nc, m, rfl, hnc, hm⟩ := Pil.cons_of_class name _ hn
  have k1 : "strand".toList = ['s', 't', 'r', 'a', 'n', 'd'] := by rfl
  have k2 : "sup-sequence".toList = ['s', 'u', 'p', '-', 's', 'e', 'q', 'u', 'e', 'n', 'c', 'e'] := by rfl
  rw [k1, k2] at hkw
  have hkt : '\t' ∉ kw := by rcases hkw with e | e <;> rw [e] <;> decide
  obtain ⟨kt, hkc⟩ : ∃ kt, kw = 's' :: kt := by rcases hkw with e | e <;> exact ⟨_, e⟩
  have hsg : '\t' ∉ [sign] := by rcases hs with rfl | rfl <;> decide
  have hdd := domName_isDom d (hd d (by simp))
  have hds : ∀ x ∈ ds, Pil.IsDom x := fun x hx => domName_isDom x (hd x (List.mem_cons_of_mem _ hx))
  -- the counts
  unfold strandTmpl at hk ⊢
  rcases ks with _ | ⟨c1, _ | ⟨c2, _ | ⟨c3, ks⟩⟩⟩ <;> simp [CountsOK] at hk
  obtain ⟨h1', hrest⟩ := hk
  obtain ⟨a, rfl⟩ : ∃ a, c1 = a + 1 := ⟨c1 - 1, by omega⟩
  obtain ⟨cs, ks', hl, ht, hr⟩ := Pil.render_sepToks ds [.sep false] ks hrest
  rcases ks' with _ | ⟨e, _ | ⟨e2, ks''⟩⟩ <;> simp [CountsOK] at ht
  have hmapfst : (ds.zip cs).map (·.1) = ds := List.map_fst_zip (by rw [hl]; exact Nat.le_refl _)
  refine stmtTextB_of_render _ _ _ 's' kt _ (by rw [hkc]; rfl) ⟨by decide, by decide, by decide⟩ ?_ ?_
    (ds.length + 30) ?_ ?_
  · exact ⟨hkt, notab_cons nc m hnc hm, hsg, Pil.notab_dom d hdd,
      toksOK_sepToks ds _ (fun x hx => Pil.notab_dom x (hds x hx)) trivial⟩
  · refine ⟨by rw [hkc]; simp, by simp, by simp, domName_ne_nil d (hd d (by simp)), ?_⟩
    exact toksNonempty_sepToks ds _ (fun x hx => domName_ne_nil x (hd x (List.mem_cons_of_mem _ hx))) trivial
  · simp only [List.cons_append, List.nil_append, tokCount, tokCount_sepToks]; omega
  · intro X NE p hX heol
    have hds' : ∀ x ∈ ds.zip cs, Pil.IsDom x.1 := by
      intro x hx
      exact hds x.1 (by rw [← hmapfst]; exact List.mem_map_of_mem hx)
    have := Pil.comp_stmt_tailW kw hkw (a + 1) (Nat.succ_pos a) nc m c2 sign hs c3 d (ds.zip cs) _ NE p hnc hm hdd
      hds' (hX.blanks e) (Pil.Ok_eol_blanks e heol)
    rw [hmapfst] at this
    have hzl : (ds.zip cs).length = ds.length := by rw [List.length_zip, hl]; simp
    rw [hzl] at this
    have htext : render (Piece.tok kw :: Piece.sep true :: Piece.tok (nc :: m) :: Piece.sep false :: Piece.tok [sign] ::
        Piece.sep false :: Piece.tok d :: (List.flatMap (fun x => [Piece.sep true, Piece.tok x]) ds ++
          [Piece.sep false])) ((a + 1) :: c2 :: c3 :: ks) ++ X =
        kw ++ Pil.compTextW (a + 1) nc m c2 sign c3 d (ds.zip cs) (List.replicate e ' ' ++ X) := by
      simp only [render, hr]
      simp [Pil.compTextW, List.append_assoc]
    simp only [List.cons_append, List.nil_append]
    rw [htext]
    exact this

/-- **`strand` / `sup-sequence`: arbitrary blanks and tabs at every token boundary** -/
theorem strand_layout (kw : List Char) (hkw : kw = "strand".toList ∨ kw = "sup-sequence".toList)
    (name d : List Char) (ds : List (List Char)) (sign : Char) (hs : sign = '=' ∨ sign = ':')
    (hn : Ident name) (hd : ∀ x ∈ d :: ds, DomName x) (gaps : List (List Char))
    (hg : SepsOK (strandTmpl kw name sign d ds) gaps) :
    StmtTextT (renderW (strandTmpl kw name sign d ds) gaps)
      (.grp [.tok "composite-domain", tokOf name, .grp ((d :: ds).map tokOf)]) := by
  have hkt : '\t' ∉ kw := by
    rcases hkw with e | e <;> rw [e] <;> decide
  have hsg : '\t' ∉ [sign] := by rcases hs with rfl | rfl <;> decide
  refine stmtTextT_of_template _ ?_ _ (fun ks hk => (strand_blanks kw hkw name d ds sign hs hn hd ks hk).toL) gaps hg
  exact ⟨hkt, Pil.notab_ident name hn.2, hsg, notab_domName d (hd d (by simp)),
    toksOK_sepToks ds _ (fun x hx => notab_domName x (hd x (List.mem_cons_of_mem _ hx))) trivial⟩

/-- the restrictions are real: without a separator after the keyword the line is a kernel complex named
    `strands`; without a separator two domain names are one; `a *` (a gap inside the combined token `a*`) is
    rejected; only after a starred domain the next domain may follow directly -/
example : parseDoc pil_env pil_grammar "strands = a b\n" =
    some [.grp [.tok "kernel-complex", .tok "strands", .grp [.tok "a", .tok "b"]]] := by rfl
example : parseDoc pil_env pil_grammar "strand s = ab\n" =
    some [.grp [.tok "composite-domain", .tok "s", .grp [.tok "ab"]]] := by rfl
example : parseDoc pil_env pil_grammar "strand s = a *\n" = none := by rfl
example : parseDoc pil_env pil_grammar "strand s = a*b\n" =
    some [.grp [.tok "composite-domain", .tok "s", .grp [.tok "a*", .tok "b"]]] := by rfl

/-- non-vacuity: tabs and blanks at every boundary of `strand s = a t* b` -/
example : parseDoc pil_env pil_grammar "strand\t s\t=  a \tt*\t\tb \n" =
    some [.grp [.tok "composite-domain", .tok "s", .grp [.tok "a", .tok "t*", .tok "b"]]] := by
  have ia := ident_single 'a' (by decide); have it := ident_single 't' (by decide)
  have ib := ident_single 'b' (by decide)
  have sep : ∀ w : List Char, (∀ c ∈ w, c = ' ' ∨ c = '\t') → IsSep w := fun w h => h
  have h := stmt_tabs_rt _ _ (strand_layout "strand".toList (Or.inl rfl) ['s'] ['a'] [['t', '*'], ['b']] '='
    (Or.inl rfl) (ident_single 's' (by decide))
    (by
      intro x hx
      simp only [List.mem_cons, List.not_mem_nil, or_false] at hx
      rcases hx with rfl | rfl | rfl
      · exact ⟨['a'], false, rfl, ia⟩
      · exact ⟨['t'], true, rfl, it⟩
      · exact ⟨['b'], false, rfl, ib⟩)
    [['\t', ' '], ['\t'], [' ', ' '], [' ', '\t'], ['\t', '\t'], [' ']]
    ⟨sep _ (by decide), by simp, sep _ (by decide), by simp, sep _ (by decide), by simp,
      sep _ (by decide), by simp, sep _ (by decide), by simp, sep _ (by decide), by simp, rfl⟩)
  exact parse_of_text _ _ _ _ _ h (by decide +kernel)

/-! ### `state` / `macrostate` -/

/-- every token boundary of `state name = [m1, m2, …]`: only the separator after the keyword is mandatory -/
def stateTmpl (kw name m1 : List Char) (ms : List (List Char)) : List Piece :=
  [.tok kw, .sep true, .tok name, .sep false, .tok ['='], .sep false, .tok ['['], .sep false, .tok m1] ++
    (ms.flatMap (fun x => [Piece.sep false, Piece.tok [','], Piece.sep false, Piece.tok x]) ++
      [.sep false, .tok [']'], .sep false])

theorem toksOK_commaToks (ms : List (List Char)) (tl : List Piece) (h : ∀ d ∈ ms, '\t' ∉ d) (htl : ToksOK tl) :
    ToksOK (ms.flatMap (fun d => [Piece.sep false, Piece.tok [','], Piece.sep false, Piece.tok d]) ++ tl) := by
  induction ms with
  | nil => exact htl
  | cons d ds ih => exact ⟨by decide, h d (by simp), ih (fun x hx => h x (List.mem_cons_of_mem _ hx))⟩

theorem toksNonempty_commaToks (ms : List (List Char)) (tl : List Piece) (h : ∀ d ∈ ms, d ≠ [])
    (htl : ToksNonempty tl) :
    ToksNonempty (ms.flatMap (fun d => [Piece.sep false, Piece.tok [','], Piece.sep false, Piece.tok d]) ++ tl) := by
  induction ms with
  | nil => exact htl
  | cons d ds ih => exact ⟨by simp, h d (by simp), ih (fun x hx => h x (List.mem_cons_of_mem _ hx))⟩

theorem tokCount_commaToks (ms : List (List Char)) (tl : List Piece) :
    tokCount (ms.flatMap (fun d => [Piece.sep false, Piece.tok [','], Piece.sep false, Piece.tok d]) ++ tl) =
      2 * ms.length + tokCount tl := by
  induction ms with
  | nil => simp
  | cons d ds ih =>
    simp only [List.flatMap_cons, List.cons_append, List.nil_append, tokCount, ih, List.length_cons]
    omega

theorem state_blanks (kw : List Char) (hkw : kw = "state".toList ∨ kw = "macrostate".toList)
    (name m1 : List Char) (ms : List (List Char)) (hn : Ident name) (hm : ∀ x ∈ m1 :: ms, Ident x)
    (ks : List Nat) (hk : CountsOK (stateTmpl kw name m1 ms) ks) :
    StmtTextB (render (stateTmpl kw name m1 ms) ks)
      (.grp [.tok "resting-macrostate", tokOf name, .grp ((m1 :: ms).map tokOf)]) := by
  obtain ⟨nc, m, rfl, hnc, hm'⟩ := Pil.cons_of_class name _ hn
  obtain ⟨mc, mm, rfl, hmc, hmm⟩ := Pil.cons_of_class m1 _ (hm m1 (by simp))
  have k1 : "state".toList = ['s', 't', 'a', 't', 'e'] := by rfl
  have k2 : "macrostate".toList = ['m', 'a', 'c', 'r', 'o', 's', 't', 'a', 't', 'e'] := by rfl
  rw [k1, k2] at hkw
  have hkt : '\t' ∉ kw := by rcases hkw with e | e <;> rw [e] <;> decide
  obtain ⟨kc, kt, hkc, hkst⟩ : ∃ kc kt, kw = kc :: kt ∧ Pil.StartCh kc := by
    rcases hkw with e | e
    · exact ⟨'s', _, e, by decide, by decide, by decide⟩
    · exact ⟨'m', _, e, by decide, by decide, by decide⟩
  have hms : ∀ x ∈ ms, Pil.IsId x := fun x hx => ident_isId x (hm x (List.mem_cons_of_mem _ hx))
  have hmst : ∀ x ∈ ms, '\t' ∉ x := fun x hx => Pil.notab_ident x (hm x (List.mem_cons_of_mem _ hx)).2
  unfold stateTmpl at hk ⊢
  rcases ks with _ | ⟨c1, _ | ⟨c2, _ | ⟨c3, _ | ⟨c4, ks⟩⟩⟩⟩ <;> simp [CountsOK] at hk
  obtain ⟨h1', hrest⟩ := hk
  obtain ⟨a, rfl⟩ : ∃ a, c1 = a + 1 := ⟨c1 - 1, by omega⟩
  obtain ⟨cs, ks', hl, ht, hr⟩ := Pil.render_commaToks ms [.sep false, .tok [']'], .sep false] ks hrest
  rcases ks' with _ | ⟨h5, _ | ⟨e, _ | ⟨e2, ks''⟩⟩⟩ <;> simp [CountsOK] at ht
  have hmapfst : (ms.zip cs).map (·.1) = ms := List.map_fst_zip (by rw [hl]; exact Nat.le_refl _)
  have hzl : (ms.zip cs).length = ms.length := by rw [List.length_zip, hl]; simp
  refine stmtTextB_of_render _ _ _ kc kt _ (by rw [hkc]; rfl) hkst ?_ ?_ (ms.length + 40) ?_ ?_
  · exact ⟨hkt, notab_cons nc m hnc hm', by decide, by decide, notab_cons mc mm hmc hmm,
      toksOK_commaToks ms _ hmst ⟨by decide, trivial⟩⟩
  · refine ⟨by rw [hkc]; simp, by simp, by simp, by simp, by simp, ?_⟩
    exact toksNonempty_commaToks ms _ (fun x hx => (hm x (List.mem_cons_of_mem _ hx)).1) ⟨by simp, trivial⟩
  · simp only [List.cons_append, List.nil_append, tokCount, tokCount_commaToks]; omega
  · intro X NE p hX heol
    have hms' : ∀ x ∈ ms.zip cs, Pil.IsId x.1 := by
      intro x hx
      exact hms x.1 (by rw [← hmapfst]; exact List.mem_map_of_mem hx)
    have := Pil.rest_stmt_tailW kw hkw a nc m c2 c3 c4 mc mm (ms.zip cs) h5 (List.replicate e ' ' ++ X) NE p hnc hm'
      hmc hmm hms' (Pil.Ok_eol_blanks e heol)
    rw [hmapfst, hzl] at this
    have htext : render (Piece.tok kw :: Piece.sep true :: Piece.tok (nc :: m) :: Piece.sep false :: Piece.tok ['='] ::
        Piece.sep false :: Piece.tok ['['] :: Piece.sep false :: Piece.tok (mc :: mm) ::
        (List.flatMap (fun x => [Piece.sep false, Piece.tok [','], Piece.sep false, Piece.tok x]) ms ++
          [Piece.sep false, Piece.tok [']'], Piece.sep false])) ((a + 1) :: c2 :: c3 :: c4 :: ks) ++ X =
        kw ++ Pil.restTextW (a + 1) nc m c2 c3 c4 mc mm (ms.zip cs) h5 (List.replicate e ' ' ++ X) := by
      simp only [render, hr]
      simp [Pil.restTextW, List.append_assoc]
    simp only [List.cons_append, List.nil_append]
    rw [htext]
    exact this

/-- **`state` / `macrostate`: arbitrary blanks and tabs at every token boundary** -/
theorem state_layout (kw : List Char) (hkw : kw = "state".toList ∨ kw = "macrostate".toList)
    (name m1 : List Char) (ms : List (List Char)) (hn : Ident name) (hm : ∀ x ∈ m1 :: ms, Ident x)
    (gaps : List (List Char)) (hg : SepsOK (stateTmpl kw name m1 ms) gaps) :
    StmtTextT (renderW (stateTmpl kw name m1 ms) gaps)
      (.grp [.tok "resting-macrostate", tokOf name, .grp ((m1 :: ms).map tokOf)]) := by
  have hkt : '\t' ∉ kw := by rcases hkw with e | e <;> rw [e] <;> decide
  refine stmtTextT_of_template _ ?_ _ (fun ks hk => (state_blanks kw hkw name m1 ms hn hm ks hk).toL) gaps hg
  exact ⟨hkt, Pil.notab_ident name hn.2, by decide, by decide, Pil.notab_ident m1 (hm m1 (by simp)).2,
    toksOK_commaToks ms _ (fun x hx => Pil.notab_ident x (hm x (List.mem_cons_of_mem _ hx)).2) ⟨by decide, trivial⟩⟩

/-- the restriction is real: without a separator after the keyword nothing matches -/
example : parseDoc pil_env pil_grammar "states = [a]\n" = none := by rfl

/-- non-vacuity: `state s=[a,b ,c]` with tabs -/
example : parseDoc pil_env pil_grammar "state\ts=[\ta,b \t,c]\t\n" =
    some [.grp [.tok "resting-macrostate", .tok "s", .grp [.tok "a", .tok "b", .tok "c"]]] := by
  have sep : ∀ w : List Char, (∀ c ∈ w, c = ' ' ∨ c = '\t') → IsSep w := fun w h => h
  have h := stmt_tabs_rt _ _ (state_layout "state".toList (Or.inl rfl) ['s'] ['a'] [['b'], ['c']]
    (ident_single 's' (by decide))
    (by
      intro x hx
      simp only [List.mem_cons, List.not_mem_nil, or_false] at hx
      rcases hx with rfl | rfl | rfl
      · exact ident_single 'a' (by decide)
      · exact ident_single 'b' (by decide)
      · exact ident_single 'c' (by decide))
    [['\t'], [], [], ['\t'], [], [], [' ', '\t'], [], [], ['\t']]
    ⟨sep _ (by decide), by simp, sep _ (by decide), by simp, sep _ (by decide), by simp, sep _ (by decide), by simp,
      sep _ (by decide), by simp, sep _ (by decide), by simp, sep _ (by decide), by simp, sep _ (by decide), by simp,
      sep _ (by decide), by simp, sep _ (by decide), by simp, rfl⟩)
  exact parse_of_text _ _ _ _ _ h (by decide +kernel)

end Dsd.C13
