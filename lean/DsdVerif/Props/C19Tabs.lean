import DsdVerif.Props.C19Layout
import DsdVerif.Lemmas.PPSswTabs

namespace Dsd.C19
open Dsd.PP Dsd.Gen Dsd.PP.Ssw Dsd.PP.Tabs

/-! C19, the layout clause "arbitrary spaces and TABS" for the seesaw grammar (the PIL counterpart is
Props/C13Tabs.lean): `parseDoc` expands tabs first; wherever a statement theorem has `blanks k`, an arbitrary
blank/tab separator may stand.  `Ssw.StmtTextT s t`: `s` expands (at column 0) to a statement text. -/

/-- from a family of statement texts over all blank counts to the texts with blank/tab separators -/
theorem stmtTextT_of_template (tm : List Piece) (htok : ToksOK tm) (t : Tree)
    (hfam : ∀ ks, CountsOK tm ks → StmtText (render tm ks) t) (ws : List (List Char)) (hws : SepsOK tm ws) :
    StmtTextT (renderW tm ws) t := by
  obtain ⟨ks, col', hk, hex⟩ := expand_template tm htok ws hws 0
  exact ⟨render tm ks, fun rest => ⟨col', hex rest⟩, hfam ks hk⟩

/-- **documents whose statements contain tabs** (layout of the lines as in `ssw_document_layout_rt`) -/
theorem ssw_document_tabs_rt (pre : List BLine) (stmts : List LItem) (fin : BLine) (hne : stmts ≠ [])
    (hpre : ∀ b ∈ pre, b.OK) (h : ∀ x ∈ stmts, StmtTextT x.1 x.2.1 ∧ x.2.2.OK) (hfin : fin.OK) :
    parseDoc ssw_env ssw_grammar
      (String.ofList (pre.flatMap BLine.text ++ (stmts.flatMap (fun x => x.1 ++ x.2.2.text) ++ fin.body))) =
    some (stmts.map (fun x => x.2.1)) :=
  Ssw.document_tabs_parse pre hpre stmts hne h fin.body (Ssw.skipIgn_body fin hfin) (Ssw.notab_bline fin hfin)

/-- `reporter[a,<sep>b]` with a blank/tab separator -/
theorem stmtTextT_reporter (a b : List Char) (ha : Digits a) (hb : Digits b) (w : List Char) (hw : IsSep w) :
    StmtTextT ("reporter[".toList ++ a ++ [','] ++ w ++ b ++ [']'])
      (.grp [.tok "reporter", .grp [tokOf a, tokOf b]]) := by
  have hat := notab_digits ha; have hbt := notab_digits hb
  have := stmtTextT_of_template [.tok ("reporter[".toList ++ a ++ [',']), .sep false, .tok (b ++ [']'])]
    ⟨by simp [hat], by simp [hbt], trivial⟩ _
    (by
      intro ks hk
      rcases ks with _ | ⟨k, _ | ⟨k2, ks⟩⟩ <;> simp [CountsOK] at hk
      have := stmtText_reporter a b ha hb k
      simpa [render, blanks, List.append_assoc] using this)
    [w] ⟨hw, by simp, rfl⟩
  simpa [renderW, List.append_assoc] using this

/-- `INPUT(n)<sep>=<sep>w[a,<sep>b]` with blank/tab separators -/
theorem stmtTextT_input (n a b : List Char) (hn : Digits n) (ha : Digits a) (hb : Digits b) (w1 w2 w3 : List Char)
    (h1 : IsSep w1) (h2 : IsSep w2) (h3 : IsSep w3) :
    StmtTextT ("INPUT(".toList ++ n ++ [')'] ++ w1 ++ ['='] ++ w2 ++ "w[".toList ++ a ++ [','] ++ w3 ++ b ++ [']'])
      (.grp [.tok "INPUT", .grp [tokOf n], wireTree a b]) := by
  have hnt := notab_digits hn; have hat := notab_digits ha; have hbt := notab_digits hb
  have := stmtTextT_of_template
    [.tok ("INPUT(".toList ++ n ++ [')']), .sep false, .tok ['='], .sep false, .tok ("w[".toList ++ a ++ [',']),
      .sep false, .tok (b ++ [']'])]
    ⟨by simp [hnt], by decide, by simp [hat], by simp [hbt], trivial⟩ _
    (by
      intro ks hk
      rcases ks with _ | ⟨k1, _ | ⟨k2, _ | ⟨k3, _ | ⟨k4, ks⟩⟩⟩⟩ <;> simp [CountsOK] at hk
      have := stmtText_input n a b hn ha hb k1 k2 k3
      simpa [render, blanks, renderWire, List.append_assoc] using this)
    [w1, w2, w3] ⟨h1, by simp, h2, by simp, h3, by simp, rfl⟩
  simpa [renderW, List.append_assoc] using this

/-! The remaining statement kinds follow the same pattern from their `stmtText_*` instances (Props/C19Doc.lean);
tab-free statements are covered by `Ssw.StmtText.toT`. -/

/-! ### non-vacuity: real tabs -/

theorem isSep_tab : IsSep ['\t'] := by
  intro c hc; simp at hc; exact Or.inr hc

example :
    parseDoc ssw_env ssw_grammar "INPUT(1)\t=\tw[1,\t2]  # in\r\nreporter[3,\t7]\nseesaw[5, {1, 2}, {3}]\n" =
    some [.grp [.tok "INPUT", .grp [.tok "1"], .grp [.tok "w", .grp [.tok "1", .tok "2"]]],
          .grp [.tok "reporter", .grp [.tok "3", .tok "7"]],
          .grp [.tok "seesaw", .grp [.tok "5", .grp [.tok "1", .tok "2"], .grp [.tok "3"]]]] := by
  have d : ∀ c : Char, c ∈ pp_nums → Digits [c] := fun c hc => ⟨by simp, by simpa using hc⟩
  have d1 := d '1' (by decide); have d2 := d '2' (by decide); have d3 := d '3' (by decide)
  have d5 := d '5' (by decide); have d7 := d '7' (by decide)
  have none_ok : ∀ c : List Char, (none : Option (List Char)) = some c → '\n' ∉ c ∧ '\t' ∉ c := by
    intro c hc; cases hc
  have h := ssw_document_tabs_rt []
    [(_, _, ⟨⟨[' ', ' '], some " in\r".toList⟩, []⟩),
     (_, _, ⟨⟨[], none⟩, []⟩),
     (_, _, ⟨⟨[], none⟩, []⟩)]
    ⟨[], none⟩ (by simp) (by simp)
    (by
      intro x hx
      simp only [List.mem_cons, List.not_mem_nil, or_false] at hx
      rcases hx with rfl | rfl | rfl
      · exact ⟨stmtTextT_input ['1'] ['1'] ['2'] d1 d1 d2 ['\t'] ['\t'] ['\t'] isSep_tab isSep_tab isSep_tab,
          bline_ok _ _ (by decide) (by intro c hc; cases hc; exact ⟨by decide, by decide⟩), by simp⟩
      · exact ⟨stmtTextT_reporter ['3'] ['7'] d3 d7 ['\t'] isSep_tab, bline_ok _ _ (by decide) none_ok, by simp⟩
      · exact ⟨(stmtText_seesaw ['5'] [['1'], ['2']] [['3']] d5
            ⟨by simp, by intro x hx; simp at hx; rcases hx with rfl | rfl <;> assumption⟩
            ⟨by simp, by intro x hx; simp at hx; subst hx; exact d3⟩).toT,
          bline_ok _ _ (by decide) none_ok, by simp⟩)
    (bline_ok _ _ (by decide) none_ok)
  exact parse_of_text _ _ _ _ _ h (by decide +kernel)

/-- the same document, checked directly against the interpreter -/
example :
    (match parseDoc ssw_env ssw_grammar
        "INPUT(1)\t=\tw[1,\t2]  # in\r\nreporter[3,\t7]\nseesaw[5, {1, 2}, {3}]\n" with
     | some [.grp [.tok "INPUT", _, _], .grp [.tok "reporter", _], .grp [.tok "seesaw", _]] => true
     | _ => false) = true := by decide +kernel

end Dsd.C19
