/-
Continuation of Props/PyLegacy.lean: more methods of the legacy `DSD_Complex` AS WRITTEN in dsdobjects/core/deprecated.py
(Gen/PyLegacy.lean) proved equal to the hand-written model `Lg.LObj` (Model/LegacyFull.lean).

  `py_exterior_domains_eq`, `py_enclosed_domains_eq`
        the two nested loops with `self._exterior_domains.append(…)` / `self._enclosed_domains.append(…)` and the lazily filled
        caches = `LObj.exteriorDomainsView` / `LObj.enclosedDomainsView` (results, error classes, object afterwards), for every
        object that satisfies the invariant `Inv` of the cached attributes:
          `PtOk`  a truthy cached pair table is a table `make_pair_table` returns
          `LiOk`  a truthy cached loop index is `make_loop_index` of the cached pair table, with the cached exterior loops
          `EnOk`  truthy cached exterior domains come with cached (not `None`) enclosed domains
  `py_kernel_string_eq`, `py_legacy_kernel_string_eq_current`
        `kernel_string` = `LObj.kernelString` for EVERY object; on equal lengths it is the current API's kernel string
  `py_views_after_rotate_once`
        `legacy_views_after_rotate_once` (Props/C20FullViews) transferred in full: after a successful `rotate_once()` as written
        the six caches are `None` and the translated `get_paired_loc`, `get_loop_index`, `get_domain`, `exterior_domains`,
        `enclosed_domains`, `strand_length` answer like the current API on the turned representation (error kinds bridged by
        `errOf_plain`: these views raise only SecondaryStructureError / interpreter faults, on which both namings agree)
  `py_rotate_pairtable_loc_eq`, `py_legacy_rotate_pairtable_loc_sign`
        `rotate_pairtable_loc(loc, n)` with its nested `wrap`, ints of either sign and `n = None` = `LObj.rotatePairtableLoc`
        for EVERY object (`size` is read up to three times by the code and once by the model: `size_idem`); transferred
        C20V.legacy_rotate_pairtable_loc_eq: the legacy method as written ADDS `n` where the current API subtracts it
  `py_inv_new`, `py_inv_run`
        `Inv` holds for what `__init__` assigns and after EVERY sequence of the modelled state-changing methods (`Op2`)
  `py_exterior_needs_liOk`, `py_enclosed_needs_enOk`
        kernel-checked witnesses that the statements are false without `LiOk` / `EnOk` (the hand model is more total than the
        code: a locus outside the cached pair table is "unpaired" in the model and an IndexError in the code; a `None` list is `[]`)
-/
import DsdVerif.Props.PyLegacy
import DsdVerif.Lemmas.PyLegacyInv
import DsdVerif.Lemmas.PyLegacyKernel
import DsdVerif.Lemmas.PyLegacyPlain
import DsdVerif.Lemmas.PyLegacyWrap

namespace Dsd.PyLegacy
open Dsd Dsd.Gen Dsd.Lg

/-- **`exterior_domains` as written is the model's `exteriorDomainsView`** (the property returns the cached list itself) -/
theorem py_exterior_domains_eq (o : LObj) (h : Inv o) :
    (py_DSD_Complex_exterior_domains).exec (ofL o) = optAns o.exteriorDomainsView := exec_exterior_domains o h

/-- **`enclosed_domains` as written is the model's `enclosedDomainsView`** -/
theorem py_enclosed_domains_eq (o : LObj) (h : Inv o) :
    (py_DSD_Complex_enclosed_domains).exec (ofL o) = optAns o.enclosedDomainsView := exec_enclosed_domains o h

/-- the invariant implies the one of Props/PyLegacy (`py_loop_index_eq`, `py_get_loop_index_eq`, `py_is_connected_eq`) -/
theorem py_inv_ptOk (o : LObj) (h : Inv o) : PtOk o := h.pt

/-- the state-changing methods of the model whose translations are proved equal to it -/
inductive Op2
  | rot | size | strandLength (k : Nat) | getDomain (l : Locus) | getPairedLoc (l : Locus) | loopIndex | getLoopIndex (l : Locus)
  | isConnected | exteriorDomains | enclosedDomains | rotatePairtableLoc (l : Int × Nat) (n : Option Int)

def Op2.run (o : LObj) : Op2 → LObj
  | .rot => o.rotateOnce.1
  | .size => o.size.1
  | .strandLength k => (o.strandLength k).1
  | .getDomain l => (o.getDomain l).1
  | .getPairedLoc l => (o.getPairedLoc ((l.1 : Int), (l.2 : Int))).1
  | .loopIndex => o.loopIndexView.1
  | .getLoopIndex l => (o.getLoopIndex l).1
  | .isConnected => o.isConnected.1
  | .exteriorDomains => o.exteriorDomainsView.1
  | .enclosedDomains => o.enclosedDomainsView.1
  | .rotatePairtableLoc l n => (o.rotatePairtableLoc l n).1

theorem py_inv_new (id : Nat) (name : String) (seq : List String) (sst : List Char) (mc : Bool) :
    Inv { id := id, name := name, seq := seq, sst := sst, memorycheck := mc } := inv_new id name seq sst mc

theorem py_inv_step (o : LObj) (h : Inv o) (op : Op2) : Inv (op.run o) := by
  cases op
  · exact inv_rotateOnce o h
  · exact inv_size o h
  · exact inv_strandLength o h _
  · exact inv_getDomain o h _
  · exact inv_getPairedLoc o h _
  · exact inv_loopIndexView o h
  · exact inv_getLoopIndex o h _
  · exact inv_isConnected o h
  · exact inv_exteriorDomainsView o h
  · exact inv_enclosedDomainsView o h
  · exact inv_size o h

/-- `Inv` holds after every sequence of these methods on a new object: the hypothesis of the equality theorems is met along
    every history (the remaining views - `sequence`, `structure`, `pair_table`, `lol_sequence`, `kernel_string` - do not change the object) -/
theorem py_inv_run (id : Nat) (name : String) (seq : List String) (sst : List Char) (mc : Bool) (ops : List Op2) :
    Inv (ops.foldl Op2.run { id := id, name := name, seq := seq, sst := sst, memorycheck := mc }) := by
  suffices ∀ (ops : List Op2) (o : LObj), Inv o → Inv (ops.foldl Op2.run o) from this ops _ (inv_new id name seq sst mc)
  intro ops
  induction ops with
  | nil => intro o h; exact h
  | cons op ops ih => intro o h; exact ih _ (py_inv_step o h op)

/-- without `LiOk` the statement is false: a cached loop index with two positions over a cached pair table with one (and no
    cached exterior loops, so the loop index is not recomputed): the code raises IndexError at `self._pair_table[0][1]`, the
    model reads the missing entry as unpaired -/
theorem py_exterior_needs_liOk :
    ∃ o : LObj, PtOk o ∧ EnOk o ∧ (py_DSD_Complex_exterior_domains).exec (ofL o) ≠ optAns o.exteriorDomainsView := by
  refine ⟨{ id := 0, name := "", seq := ["a"], sst := ['.'], pairTable := some [[none]], loopIndex := some [[0, 0]] }, ?_, ?_, by decide⟩
  · intro t ht _
    simp only [Option.some.injEq] at ht
    subst ht
    exact ⟨['.'], by decide⟩
  · intro d hd; cases hd

/-- without `EnOk` the statement about `enclosed_domains` is false: the property returns `None` where the model answers `[]` -/
theorem py_enclosed_needs_enOk :
    ∃ o : LObj, PtOk o ∧ LiOk o ∧ (py_DSD_Complex_enclosed_domains).exec (ofL o) ≠ optAns o.enclosedDomainsView := by
  refine ⟨{ id := 0, name := "", seq := ["a"], sst := ['.'], exteriorDomains := some [(0, 0)] }, ?_, ?_, by decide⟩
  · intro t ht; cases ht
  · intro t ht; cases ht

/-! ### `kernel_string` -/

/-- **`kernel_string` as written is the model's `kernelString`**, for every object (no hypothesis: the index loop runs over
    `range(len(seq))`, a shorter structure is an IndexError on both sides); a `str` is the list of its characters -/
theorem py_kernel_string_eq (o : LObj) : (py_DSD_Complex_kernel_string).exec (ofL o) = strAnsL o.kernelString o :=
  exec_kernel_string o

/-- transferred (LgL.kernelString_eq / C20V.legacy_kernel_string_eq): on equal lengths the legacy property as written returns the
    kernel string of the CURRENT API (`Dsd.kernelString`) and leaves the object unchanged -/
theorem py_legacy_kernel_string_eq_current (o : LObj) (h : o.seq.length = o.sst.length) :
    (py_DSD_Complex_kernel_string).exec (ofL o) = (.ok (Dsd.kernelString o.seq o.sst).toList, ofL o) := by
  rw [py_kernel_string_eq, LgL.kernelString_eq o h]; rfl

/-! ### `rotate_pairtable_loc` -/

/-- **`rotate_pairtable_loc` as written is the model's `rotatePairtableLoc`**, for every object, every locus with a strand index
    of either sign, every `n` (an int of either sign or `None`); ZeroDivisionError for an object without strands on both sides -/
theorem py_rotate_pairtable_loc_eq (o : LObj) (loc : Int × Nat) (n : Option Int) :
    (py_DSD_Complex_rotate_pairtable_loc loc n).exec (ofL o) = locAns (o.rotatePairtableLoc loc n) :=
  exec_rotate_pairtable_loc o loc n

/-- transferred (C20V.legacy_rotate_pairtable_loc_eq): on an object with empty strand caches and at least one strand the legacy
    method as written answers the current API's `rotate_pairtable_loc(loc, −n)` - the sign convention differs -/
theorem py_legacy_rotate_pairtable_loc_sign (o : LObj) (h1 : o.strandLengths = none) (h2 : o.lolSequence = none)
    (l : Locus) (n : Int) (hpos : 0 < (makeStrandTableList "+" o.seq).length) :
    ((py_DSD_Complex_rotate_pairtable_loc ((l.1 : Int), l.2) (some n)).exec (ofL o)).1 =
      .ok (Int.ofNat (C07.rotLoc (makeStrandTableList "+" o.seq).length (-n) l).1,
           (C07.rotLoc (makeStrandTableList "+" o.seq).length (-n) l).2) := by
  rw [py_rotate_pairtable_loc_eq]
  unfold locAns
  rw [C20V.legacy_rotate_pairtable_loc_eq o h1 h2 l n hpos]

/-! ### transferred: all of `legacy_views_after_rotate_once` -/

/-- the answer of a translated view that returns the cached `None`-able list: `None` is NOT an answer of the current API -/
def locsAns : Except Err (Option (List Locus)) → Ans
  | .ok (some l) => .locs l
  | .ok none => .err (.fault "None")
  | .error e => .err e

theorem bridge_nat (r : LObj × Except LErr Nat) (hp : ∀ e, r.2 = .error e → Plain e) :
    natAns (exAns r).1 = C20V.ansNat r.2 := by
  obtain ⟨o1, r2⟩ := r
  cases r2 with
  | ok a => rfl
  | error e => simp only [natAns, exAns, C20V.ansNat, errOf_plain e (hp e rfl)]

theorem bridge_str (r : LObj × Except LErr String) (hp : ∀ e, r.2 = .error e → Plain e) :
    strAns (exAns r).1 = C20V.ansStr r.2 := by
  obtain ⟨o1, r2⟩ := r
  cases r2 with
  | ok a => rfl
  | error e => simp only [strAns, exAns, C20V.ansStr, errOf_plain e (hp e rfl)]

theorem bridge_oloc (r : LObj × Except LErr (Option Locus)) (hp : ∀ e, r.2 = .error e → Plain e) :
    olocAns (exAns r).1 = C20V.ansOLoc r.2 := by
  obtain ⟨o1, r2⟩ := r
  cases r2 with
  | ok a => rfl
  | error e => simp only [olocAns, exAns, C20V.ansOLoc, errOf_plain e (hp e rfl)]

theorem bridge_locs (r : LObj × Except LErr (List Locus)) (hp : ∀ e, r.2 = .error e → Plain e) :
    locsAns (optAns r).1 = C20V.ansLocs r.2 := by
  obtain ⟨o1, r2⟩ := r
  cases r2 with
  | ok a => rfl
  | error e => simp only [locsAns, optAns, C20V.ansLocs, errOf_plain e (hp e rfl)]

/-- **after a successful `rotate_once()` as written, the translated views answer like the current API on the turned
    representation** (all conjuncts of C20V.legacy_views_after_rotate_once, as statements about the code) -/
theorem py_views_after_rotate_once (o : LObj) (h : o.seq.length = o.sst.length) (nx : List String × List Char)
    (hrot : Dsd.rotateOnce o.seq o.sst = .ok nx) :
    ∃ s', (py_DSD_Complex_rotate_once).exec (ofL o) = (.ok (), s') ∧ (s'._sequence, s'._structure) = nx ∧
      s'._pair_table = none ∧ s'._loop_index = none ∧ s'._lol_sequence = none ∧ s'._exterior_domains = none ∧
      s'._strand_lengths = none ∧ s'._enclosed_domains = none ∧
      (∀ l, olocAns ((py_DSD_Complex_get_paired_loc l).exec s').1 = (C20V.cur (LgL.rotated o nx)).answer (.getPairedLoc l)) ∧
      (∀ l, natAns ((py_DSD_Complex_get_loop_index l).exec s').1 = (C20V.cur (LgL.rotated o nx)).answer (.getLoopIndex l)) ∧
      (∀ l, strAns ((py_DSD_Complex_get_domain l).exec s').1 = (C20V.cur (LgL.rotated o nx)).answer (.getDomain l)) ∧
      locsAns ((py_DSD_Complex_exterior_domains).exec s').1 = (C20V.cur (LgL.rotated o nx)).answer .exterior ∧
      locsAns ((py_DSD_Complex_enclosed_domains).exec s').1 = (C20V.cur (LgL.rotated o nx)).answer .enclosed ∧
      (∀ k, natAns ((py_DSD_Complex_strand_length k).exec s').1 = (C20V.cur (LgL.rotated o nx)).answer (.strandLength k)) := by
  obtain ⟨o', ho', _, _, _, _, _, _, _, c1, c2, c3, c4, c5, c6⟩ := C20V.legacy_views_after_rotate_once o h nx hrot
  have : o' = LgL.rotated o nx := by rw [C20F.legacy_rotate_once_obj o h nx hrot] at ho'; exact (Prod.mk.inj ho').1.symm
  subst this
  have hinv : Inv (LgL.rotated o nx) :=
    ⟨fun _ ht => (by cases ht), fun _ ht => (by cases ht), fun _ ht => (by cases ht)⟩
  refine ⟨_, py_legacy_rotate_once_obj o h nx hrot, rfl, rfl, rfl, rfl, rfl, rfl, rfl, ?_, ?_, ?_, ?_, ?_, ?_⟩
  · intro l
    rw [py_get_paired_loc_eq, ← c1 l]
    exact bridge_oloc _ (fun e he => getPairedLoc_plain _ _ e he)
  · intro l
    rw [py_get_loop_index_eq _ hinv.pt, ← c2 l]
    exact bridge_nat _ (fun e he => getLoopIndex_plain _ _ e he)
  · intro l
    rw [py_get_domain_eq, ← c3 l]
    exact bridge_str _ (fun e he => getDomain_plain _ _ e he)
  · rw [py_exterior_domains_eq _ hinv, ← c4]
    exact bridge_locs _ (fun e he => exterior_plain _ e he)
  · rw [py_enclosed_domains_eq _ hinv, ← c5]
    exact bridge_locs _ (fun e he => enclosed_plain _ e he)
  · intro k
    rw [py_strand_length_eq, ← c6 k]
    exact bridge_nat _ (fun e he => strandLength_plain _ _ e he)

#print axioms py_rotate_pairtable_loc_eq
#print axioms py_legacy_rotate_pairtable_loc_sign
#print axioms py_views_after_rotate_once
#print axioms py_kernel_string_eq
#print axioms py_legacy_kernel_string_eq_current
#print axioms py_exterior_domains_eq
#print axioms py_enclosed_domains_eq
#print axioms py_inv_new
#print axioms py_inv_step
#print axioms py_inv_run
#print axioms py_exterior_needs_liOk
#print axioms py_enclosed_needs_enOk

end Dsd.PyLegacy
