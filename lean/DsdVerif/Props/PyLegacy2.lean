/-
Continuation of Props/PyLegacy.lean: more methods of the legacy `DSD_Complex` AS WRITTEN in dsdobjects/core/deprecated.py
(Gen/PyLegacy.lean) proved equal to the hand-written model `Lg.LObj` (Model/LegacyFull.lean).

  `py_exterior_domains_eq`, `py_enclosed_domains_eq`
        the two nested loops with `self._exterior_domains.append(…)` / `self._enclosed_domains.append(…)` and the lazily filled
        caches = `LObj.exteriorDomainsView` / `LObj.enclosedDomainsView` (results, error classes, object afterwards), for every
        object that satisfies the invariant `Inv` of the cached attributes:
          `PtOk`  a truthy cached pair table is a table `make_pair_table` returns
          `LiOk`  a truthy cached loop index is `make_loop_index` of the cached pair table, with the cached exterior loops
          `EnOk`  truthy cached exterior domains come with cached (not `None`) enclosed domains
  `py_kernel_string_eq`, `py_legacy_kernel_string_eq_current`
        `kernel_string` = `LObj.kernelString` for EVERY object; on equal lengths it is the current API's kernel string
  `py_inv_new`, `py_inv_run`
        `Inv` holds for what `__init__` assigns and after EVERY sequence of the modelled state-changing methods (`Op2`)
  `py_exterior_needs_liOk`, `py_enclosed_needs_enOk`
        kernel-checked witnesses that the statements are false without `LiOk` / `EnOk` (the hand model is more total than the
        code: a locus outside the cached pair table is "unpaired" in the model and an IndexError in the code; a `None` list is `[]`)
-/
import DsdVerif.Props.PyLegacy
import DsdVerif.Lemmas.PyLegacyInv
import DsdVerif.Lemmas.PyLegacyKernel

namespace Dsd.PyLegacy
open Dsd Dsd.Gen Dsd.Lg

/-- **`exterior_domains` as written is the model's `exteriorDomainsView`** (the property returns the cached list itself) -/
theorem py_exterior_domains_eq (o : LObj) (h : Inv o) :
    (py_DSD_Complex_exterior_domains).exec (ofL o) = optAns o.exteriorDomainsView := exec_exterior_domains o h

/-- **`enclosed_domains` as written is the model's `enclosedDomainsView`** -/
theorem py_enclosed_domains_eq (o : LObj) (h : Inv o) :
    (py_DSD_Complex_enclosed_domains).exec (ofL o) = optAns o.enclosedDomainsView := exec_enclosed_domains o h

/-- the invariant implies the one of Props/PyLegacy (`py_loop_index_eq`, `py_get_loop_index_eq`, `py_is_connected_eq`) -/
theorem py_inv_ptOk (o : LObj) (h : Inv o) : PtOk o := h.pt

/-- the state-changing methods of the model whose translations are proved equal to it -/
inductive Op2
  | rot | size | strandLength (k : Nat) | getDomain (l : Locus) | getPairedLoc (l : Locus) | loopIndex | getLoopIndex (l : Locus)
  | isConnected | exteriorDomains | enclosedDomains

def Op2.run (o : LObj) : Op2 → LObj
  | .rot => o.rotateOnce.1
  | .size => o.size.1
  | .strandLength k => (o.strandLength k).1
  | .getDomain l => (o.getDomain l).1
  | .getPairedLoc l => (o.getPairedLoc ((l.1 : Int), (l.2 : Int))).1
  | .loopIndex => o.loopIndexView.1
  | .getLoopIndex l => (o.getLoopIndex l).1
  | .isConnected => o.isConnected.1
  | .exteriorDomains => o.exteriorDomainsView.1
  | .enclosedDomains => o.enclosedDomainsView.1

theorem py_inv_new (id : Nat) (name : String) (seq : List String) (sst : List Char) (mc : Bool) :
    Inv { id := id, name := name, seq := seq, sst := sst, memorycheck := mc } := inv_new id name seq sst mc

theorem py_inv_step (o : LObj) (h : Inv o) (op : Op2) : Inv (op.run o) := by
  cases op
  · exact inv_rotateOnce o h
  · exact inv_size o h
  · exact inv_strandLength o h _
  · exact inv_getDomain o h _
  · exact inv_getPairedLoc o h _
  · exact inv_loopIndexView o h
  · exact inv_getLoopIndex o h _
  · exact inv_isConnected o h
  · exact inv_exteriorDomainsView o h
  · exact inv_enclosedDomainsView o h

/-- `Inv` holds after every sequence of these methods on a new object: the hypothesis of the equality theorems is met along
    every history (the remaining views - `sequence`, `structure`, `pair_table`, `lol_sequence`, `kernel_string` - do not change the object) -/
theorem py_inv_run (id : Nat) (name : String) (seq : List String) (sst : List Char) (mc : Bool) (ops : List Op2) :
    Inv (ops.foldl Op2.run { id := id, name := name, seq := seq, sst := sst, memorycheck := mc }) := by
  suffices ∀ (ops : List Op2) (o : LObj), Inv o → Inv (ops.foldl Op2.run o) from this ops _ (inv_new id name seq sst mc)
  intro ops
  induction ops with
  | nil => intro o h; exact h
  | cons op ops ih => intro o h; exact ih _ (py_inv_step o h op)

/-- without `LiOk` the statement is false: a cached loop index with two positions over a cached pair table with one (and no
    cached exterior loops, so the loop index is not recomputed): the code raises IndexError at `self._pair_table[0][1]`, the
    model reads the missing entry as unpaired -/
theorem py_exterior_needs_liOk :
    ∃ o : LObj, PtOk o ∧ EnOk o ∧ (py_DSD_Complex_exterior_domains).exec (ofL o) ≠ optAns o.exteriorDomainsView := by
  refine ⟨{ id := 0, name := "", seq := ["a"], sst := ['.'], pairTable := some [[none]], loopIndex := some [[0, 0]] }, ?_, ?_, by decide⟩
  · intro t ht _
    simp only [Option.some.injEq] at ht
    subst ht
    exact ⟨['.'], by decide⟩
  · intro d hd; cases hd

/-- without `EnOk` the statement about `enclosed_domains` is false: the property returns `None` where the model answers `[]` -/
theorem py_enclosed_needs_enOk :
    ∃ o : LObj, PtOk o ∧ LiOk o ∧ (py_DSD_Complex_enclosed_domains).exec (ofL o) ≠ optAns o.enclosedDomainsView := by
  refine ⟨{ id := 0, name := "", seq := ["a"], sst := ['.'], exteriorDomains := some [(0, 0)] }, ?_, ?_, by decide⟩
  · intro t ht; cases ht
  · intro t ht; cases ht

/-! ### `kernel_string` -/

/-- **`kernel_string` as written is the model's `kernelString`**, for every object (no hypothesis: the index loop runs over
    `range(len(seq))`, a shorter structure is an IndexError on both sides); a `str` is the list of its characters -/
theorem py_kernel_string_eq (o : LObj) : (py_DSD_Complex_kernel_string).exec (ofL o) = strAnsL o.kernelString o :=
  exec_kernel_string o

/-- transferred (LgL.kernelString_eq / C20V.legacy_kernel_string_eq): on equal lengths the legacy property as written returns the
    kernel string of the CURRENT API (`Dsd.kernelString`) and leaves the object unchanged -/
theorem py_legacy_kernel_string_eq_current (o : LObj) (h : o.seq.length = o.sst.length) :
    (py_DSD_Complex_kernel_string).exec (ofL o) = (.ok (Dsd.kernelString o.seq o.sst).toList, ofL o) := by
  rw [py_kernel_string_eq, LgL.kernelString_eq o h]; rfl

#print axioms py_kernel_string_eq
#print axioms py_legacy_kernel_string_eq_current
#print axioms py_exterior_domains_eq
#print axioms py_enclosed_domains_eq
#print axioms py_inv_new
#print axioms py_inv_step
#print axioms py_inv_run
#print axioms py_exterior_needs_liOk
#print axioms py_enclosed_needs_enOk

end Dsd.PyLegacy
