import DsdVerif.Model.CplxObject
import DsdVerif.Lemmas.Views
import DsdVerif.Lemmas.ViewsRot

namespace Dsd.C03
open Dsd

/-- each lazily filled table is empty or is the function of the *current* representation -/
structure Coherent (o : CplxObj) : Prop where
  st : ∀ t, o.strandTable = some t → t = makeStrandTableList "+" o.seq
  pt : ∀ t, o.pairTable = some t → makePairTable o.sst = .ok t ∨ t = []
  li : ∀ l, o.loopIndex = some l → ∃ pt lo, o.pairTable = some pt ∧ makePairTable o.sst = .ok pt ∧
        makeLoopIndex pt false = .ok lo ∧ l = (lo.loopIndex, lo.exterior)
  ed : ∀ d, o.extDomains = some d → ∃ l, o.loopIndex = some l ∧
        (CplxObj.getExtDomains { o with extDomains := none }).2 = .ok d

/-- a fresh object (no caches) is coherent -/
theorem coherent_fresh (seq sst turns canon name) :
    Coherent { seq := seq, sst := sst, turns := turns, canon := canon, name := name } := by
  constructor <;> intro _ h <;> cases h

/-! ### helper lemmas: the getters on coherent objects -/

open CplxObj in
/-- `Coherent` with the last field stated through `extOf` -/
structure Coh (o : CplxObj) : Prop where
  st : ∀ t, o.strandTable = some t → t = makeStrandTableList "+" o.seq
  pt : ∀ t, o.pairTable = some t → makePairTable o.sst = .ok t ∨ t = []
  li : ∀ l, o.loopIndex = some l → ∃ pt, o.pairTable = some pt ∧ makePairTable o.sst = .ok pt ∧ liOf pt = .ok l
  ed : ∀ d, o.extDomains = some d → ∃ l, o.loopIndex = some l ∧ d = extOf (o.pairTable.getD []) l

open CplxObj in
theorem getExtDomains_clear (o : CplxObj) (l) (h : o.loopIndex = some l) :
    (CplxObj.getExtDomains { o with extDomains := none }).2 = .ok (extOf (o.pairTable.getD []) l) := by
  rw [getExtDomains_eq]
  simp only [getLoopIndex_eq, h]

open CplxObj in
theorem liOf_iff (pt : PairTable) (l) :
    liOf pt = .ok l ↔ ∃ lo, makeLoopIndex pt false = .ok lo ∧ l = (lo.loopIndex, lo.exterior) := by
  unfold liOf
  cases makeLoopIndex pt false with
  | error e => simp
  | ok lo => simp [eq_comm]

theorem coherent_iff (o : CplxObj) : Coherent o ↔ Coh o := by
  constructor
  · intro h
    refine ⟨h.st, h.pt, ?_, ?_⟩
    · intro l hl
      obtain ⟨pt, lo, h1, h2, h3, h4⟩ := h.li l hl
      exact ⟨pt, h1, h2, (liOf_iff pt l).2 ⟨lo, h3, h4⟩⟩
    · intro d hd
      obtain ⟨l, h1, h2⟩ := h.ed d hd
      refine ⟨l, h1, ?_⟩
      rw [getExtDomains_clear o l h1] at h2
      injection h2 with h2; exact h2.symm
  · intro h
    refine ⟨h.st, h.pt, ?_, ?_⟩
    · intro l hl
      obtain ⟨pt, h1, h2, h3⟩ := h.li l hl
      obtain ⟨lo, h4, h5⟩ := (liOf_iff pt l).1 h3
      exact ⟨pt, lo, h1, h2, h4, h5⟩
    · intro d hd
      obtain ⟨l, h1, h2⟩ := h.ed d hd
      refine ⟨l, h1, ?_⟩
      rw [getExtDomains_clear o l h1, h2]

open CplxObj in
theorem getStrandTable_coh (o : CplxObj) (h : Coh o) :
    Coh o.getStrandTable.1 ∧ o.getStrandTable.2 = makeStrandTableList "+" o.seq ∧
    SameRep o.getStrandTable.1 o := by
  unfold getStrandTable
  cases hs : o.strandTable with
  | none =>
    refine ⟨⟨?_, h.pt, h.li, h.ed⟩, rfl, ⟨rfl, rfl, rfl, rfl, rfl⟩⟩
    intro t ht
    simp only [Option.some.injEq] at ht
    exact ht.symm
  | some t =>
    simp only
    split
    · refine ⟨⟨?_, h.pt, h.li, h.ed⟩, rfl, ⟨rfl, rfl, rfl, rfl, rfl⟩⟩
      intro t ht
      simp only [Option.some.injEq] at ht
      exact ht.symm
    · exact ⟨h, h.st t hs, ⟨rfl, rfl, rfl, rfl, rfl⟩⟩

open CplxObj in
theorem size_coh (o : CplxObj) (h : Coh o) :
    Coh o.size.1 ∧ o.size.2 = (makeStrandTableList "+" o.seq).length ∧ SameRep o.size.1 o := by
  rw [size_eq]
  obtain ⟨h1, h2, h3⟩ := getStrandTable_coh o h
  exact ⟨h1, by simp only [h2], h3⟩

open CplxObj in
theorem coh_setPT (o : CplxObj) (h : Coh o) (t' : PairTable) (ht' : makePairTable o.sst = .ok t') : Coh { o with pairTable := some t' } := by
  refine ⟨h.st, ?_, ?_, ?_⟩
  · intro t ht
    simp only [Option.some.injEq] at ht
    subst ht; exact Or.inl ht'
  · intro l hl
    obtain ⟨pt, h1, h2, h3⟩ := h.li l hl
    rw [ht'] at h2; injection h2 with h2; subst h2
    exact ⟨t', rfl, ht', h3⟩
  · intro d hd
    obtain ⟨l, h1, h2⟩ := h.ed d hd
    obtain ⟨pt, h3, h4, h5⟩ := h.li l h1
    rw [ht'] at h4; injection h4 with h4; subst h4
    refine ⟨l, h1, ?_⟩
    rw [h2, h3]

open CplxObj in
theorem getPairTable_coh (o : CplxObj) (h : Coh o) :
    Coh o.getPairTable.1 ∧ o.getPairTable.2 = makePairTable o.sst ∧ SameRep o.getPairTable.1 o ∧
    o.getPairTable.1.loopIndex = o.loopIndex ∧ o.getPairTable.1.extDomains = o.extDomains ∧
    ∀ pt, makePairTable o.sst = .ok pt → o.getPairTable.1.pairTable = some pt := by
  unfold getPairTable
  cases hs : o.pairTable with
  | none =>
    simp only
    cases hm : makePairTable o.sst with
    | error e => exact ⟨h, rfl, ⟨rfl, rfl, rfl, rfl, rfl⟩, rfl, rfl, by intro pt hpt; cases hpt⟩
    | ok t' =>
      refine ⟨coh_setPT o h t' hm, rfl, ⟨rfl, rfl, rfl, rfl, rfl⟩, rfl, rfl, ?_⟩
      intro pt hpt; injection hpt with hpt; subst hpt; rfl
  | some t =>
    simp only
    split
    · rename_i hemp
      have : t = [] := by simpa using hemp
      subst this
      cases hm : makePairTable o.sst with
      | error e => exact ⟨h, rfl, ⟨rfl, rfl, rfl, rfl, rfl⟩, rfl, rfl, by intro pt hpt; cases hpt⟩
      | ok t' =>
        refine ⟨coh_setPT o h t' hm, rfl, ⟨rfl, rfl, rfl, rfl, rfl⟩, rfl, rfl, ?_⟩
        intro pt hpt; injection hpt with hpt; subst hpt; rfl
    · rename_i hemp
      have hne : t ≠ [] := by intro h0; subst h0; simp at hemp
      have hm : makePairTable o.sst = .ok t := (h.pt t hs).resolve_right hne
      refine ⟨h, hm.symm, ⟨rfl, rfl, rfl, rfl, rfl⟩, rfl, rfl, ?_⟩
      intro pt hpt; rw [hm] at hpt; injection hpt with hpt; subst hpt; exact hs

open CplxObj in
theorem getLoopIndex_coh (o : CplxObj) (h : Coh o) :
    Coh o.getLoopIndex.1 ∧ o.getLoopIndex.2 = liSpec o.sst ∧ SameRep o.getLoopIndex.1 o ∧
    o.getLoopIndex.1.extDomains = o.extDomains ∧
    ∀ l, o.getLoopIndex.2 = .ok l → o.getLoopIndex.1.loopIndex = some l := by
  rw [getLoopIndex_eq]
  cases hl : o.loopIndex with
  | some l =>
    simp only
    obtain ⟨pt, h1, h2, h3⟩ := h.li l hl
    refine ⟨h, ?_, ⟨rfl, rfl, rfl, rfl, rfl⟩, trivial, ?_⟩
    · simp only [liSpec, h2, h3]
    · intro l' hl'; injection hl' with hl'; subst hl'; exact hl
  | none =>
    simp only
    obtain ⟨g1, g2, g3, g4, g5, g6⟩ := getPairTable_coh o h
    have hed : o.extDomains = none := by
      cases hd : o.extDomains with
      | none => rfl
      | some d => obtain ⟨l, h1, _⟩ := h.ed d hd; rw [hl] at h1; cases h1
    rw [g2]
    cases hm : makePairTable o.sst with
    | error e =>
      simp only
      exact ⟨g1, by simp only [liSpec, hm], g3, g5, by intro l hl'; cases hl'⟩
    | ok pt =>
      simp only
      cases hli : liOf pt with
      | error e =>
        simp only
        exact ⟨g1, by simp only [liSpec, hm, hli], g3, g5, by intro l hl'; cases hl'⟩
      | ok l =>
        simp only
        refine ⟨⟨g1.st, g1.pt, ?_, ?_⟩, by simp only [liSpec, hm, hli], g3, g5, ?_⟩
        · intro l' hl'
          simp only [Option.some.injEq] at hl'
          subst hl'
          exact ⟨pt, g6 pt hm, by rw [g3.2.1]; exact hm, hli⟩
        · intro d hd
          simp only at hd
          rw [g5, hed] at hd; cases hd
        · intro l' hl'; injection hl' with hl'; subst hl'; rfl

open CplxObj in
theorem getExtDomains_coh (o : CplxObj) (h : Coh o) :
    Coh o.getExtDomains.1 ∧ o.getExtDomains.2 = edSpec o.sst ∧ SameRep o.getExtDomains.1 o := by
  rw [getExtDomains_eq]
  cases hd : o.extDomains with
  | some d =>
    simp only
    obtain ⟨l, h1, h2⟩ := h.ed d hd
    obtain ⟨pt, h3, h4, h5⟩ := h.li l h1
    refine ⟨h, ?_, ⟨rfl, rfl, rfl, rfl, rfl⟩⟩
    simp only [edSpec, h4, h5, h2, h3, Option.getD_some]
  | none =>
    simp only
    obtain ⟨g1, g2, g3, g4, g5⟩ := getLoopIndex_coh o h
    cases hr : o.getLoopIndex.2 with
    | error e =>
      simp only
      refine ⟨g1, ?_, g3⟩
      rw [hr] at g2
      simp only [liSpec] at g2
      simp only [edSpec]
      cases hm : makePairTable o.sst with
      | error e' => rw [hm] at g2; simp only at g2; injection g2 with g2; subst g2; rfl
      | ok pt => rw [hm] at g2; simp only at g2; simp only [← g2]
    | ok l =>
      simp only
      have hl := g5 l hr
      obtain ⟨pt, h3, h4, h5⟩ := g1.li l hl
      rw [g3.2.1] at h4
      refine ⟨⟨g1.st, g1.pt, g1.li, ?_⟩, ?_, g3⟩
      · intro d hd
        simp only [Option.some.injEq] at hd
        exact ⟨l, hl, hd.symm⟩
      · simp only [edSpec, h4, h5, h3, Option.getD_some]

/-- the answers stated without any cache -/
def qSpec (o : CplxObj) (v : View) : Ans :=
  match v with
  | .sequence => .names o.seq
  | .structure => .chars o.sst
  | .kernel => .str (kernelString o.seq o.sst)
  | .size => .nat (makeStrandTableList "+" o.seq).length
  | .strandTable => .stab (makeStrandTableList "+" o.seq)
  | .pairTable => match makePairTable o.sst with | .ok t => .ptab t | .error e => .err e
  | .strandLength k =>
    match (makeStrandTableList "+" o.seq)[k]? with | some s => .nat s.length | none => .err (.fault "IndexError")
  | .getDomain l =>
    match ((makeStrandTableList "+" o.seq)[l.1]?).bind (fun s => s[l.2]?) with
    | some d => .str d | none => .err (.fault "IndexError")
  | .getPairedLoc l =>
    match makePairTable o.sst with
    | .error e => .err e
    | .ok t => match (t[l.1]?).bind (fun s => s[l.2]?) with | some x => .oloc x | none => .err (.fault "IndexError")
  | .getLoopIndex l =>
    match CplxObj.liSpec o.sst with
    | .error e => .err e
    | .ok (li, _) => match (li[l.1]?).bind (fun s => s[l.2]?) with | some x => .nat x | none => .err (.fault "IndexError")
  | .exterior => match CplxObj.edSpec o.sst with | .ok d => .locs d.1 | .error e => .err e
  | .enclosed => match CplxObj.edSpec o.sst with | .ok d => .locs d.2 | .error e => .err e
  | .isConnected =>
    match CplxObj.liSpec o.sst with | .ok _ => .bool true | .error .secondaryStructure => .bool false | .error e => .err e
  | .rotate =>
    match rotationsFrom (makeStrandTableList "+" o.seq).length o.seq o.sst with | .ok r => .rots r | .error e => .err e
  | .rotatePt =>
    match rotationsFrom (makeStrandTableList "+" o.seq).length o.seq o.sst with | .ok r => .rots r | .error e => .err e
  | .turns => .nat o.turns
  | .canon => .key o.canon
  | .name => .str o.name

open CplxObj in
theorem qSpec_congr {o o' : CplxObj} (h : SameRep o o') (v : View) : qSpec o v = qSpec o' v := by
  obtain ⟨a1, a2, a3, a4, a5⟩ := h
  cases v <;> simp only [qSpec, a1, a2, a3, a4, a5]

open CplxObj in
theorem query_coh (o : CplxObj) (v : View) (h : Coh o) :
    Coh (o.query v).1 ∧ (o.query v).2 = qSpec o v ∧ SameRep (o.query v).1 o := by
  cases v with
  | sequence => exact ⟨h, rfl, SameRep.refl o⟩
  | «structure» => exact ⟨h, rfl, SameRep.refl o⟩
  | kernel => exact ⟨h, rfl, SameRep.refl o⟩
  | turns => exact ⟨h, rfl, SameRep.refl o⟩
  | canon => exact ⟨h, rfl, SameRep.refl o⟩
  | name => exact ⟨h, rfl, SameRep.refl o⟩
  | size =>
    obtain ⟨g1, g2, g3⟩ := size_coh o h
    cases hs : o.size with
    | mk o' n =>
      rw [hs] at g1 g2 g3; simp only at g1 g2 g3
      simp only [query, hs, qSpec, g2]
      exact ⟨g1, by first | trivial | rfl, g3⟩
  | strandTable =>
    obtain ⟨g1, g2, g3⟩ := getStrandTable_coh o h
    cases hs : o.getStrandTable with
    | mk o' n =>
      rw [hs] at g1 g2 g3; simp only at g1 g2 g3
      simp only [query, hs, qSpec, g2]
      exact ⟨g1, by first | trivial | rfl, g3⟩
  | strandLength k =>
    obtain ⟨g1, g2, g3⟩ := getStrandTable_coh o h
    cases hs : o.getStrandTable with
    | mk o' n =>
      rw [hs] at g1 g2 g3; simp only at g1 g2 g3
      simp only [query, hs, qSpec, g2]
      exact ⟨g1, by first | trivial | rfl, g3⟩
  | getDomain l =>
    obtain ⟨g1, g2, g3⟩ := getStrandTable_coh o h
    cases hs : o.getStrandTable with
    | mk o' n =>
      rw [hs] at g1 g2 g3; simp only at g1 g2 g3
      simp only [query, hs, qSpec, g2]
      exact ⟨g1, by first | trivial | rfl, g3⟩
  | pairTable =>
    obtain ⟨g1, g2, g3, _⟩ := getPairTable_coh o h
    cases hs : o.getPairTable with
    | mk o' n =>
      rw [hs] at g1 g2 g3; simp only at g1 g2 g3
      simp only [query, hs, qSpec, g2]
      exact ⟨g1, by first | trivial | rfl, g3⟩
  | getPairedLoc l =>
    obtain ⟨g1, g2, g3, _⟩ := getPairTable_coh o h
    cases hs : o.getPairTable with
    | mk o' n =>
      rw [hs] at g1 g2 g3; simp only at g1 g2 g3
      simp only [query, hs, qSpec, g2]
      exact ⟨g1, by first | trivial | rfl, g3⟩
  | getLoopIndex l =>
    obtain ⟨g1, g2, g3, _⟩ := getLoopIndex_coh o h
    cases hs : o.getLoopIndex with
    | mk o' n =>
      rw [hs] at g1 g2 g3; simp only at g1 g2 g3
      simp only [query, hs, qSpec, g2]
      exact ⟨g1, by first | trivial | rfl, g3⟩
  | isConnected =>
    obtain ⟨g1, g2, g3, _⟩ := getLoopIndex_coh o h
    cases hs : o.getLoopIndex with
    | mk o' n =>
      rw [hs] at g1 g2 g3; simp only at g1 g2 g3
      simp only [query, hs, qSpec, g2]
      exact ⟨g1, by first | trivial | rfl, g3⟩
  | exterior =>
    obtain ⟨g1, g2, g3⟩ := getExtDomains_coh o h
    cases hs : o.getExtDomains with
    | mk o' n =>
      rw [hs] at g1 g2 g3; simp only at g1 g2 g3
      simp only [query, hs, qSpec, g2]
      exact ⟨g1, by first | trivial | rfl, g3⟩
  | enclosed =>
    obtain ⟨g1, g2, g3⟩ := getExtDomains_coh o h
    cases hs : o.getExtDomains with
    | mk o' n =>
      rw [hs] at g1 g2 g3; simp only at g1 g2 g3
      simp only [query, hs, qSpec, g2]
      exact ⟨g1, by first | trivial | rfl, g3⟩
  | rotate =>
    obtain ⟨g1, g2, g3⟩ := size_coh o h
    cases hs : o.size with
    | mk o' n =>
      rw [hs] at g1 g2 g3; simp only at g1 g2 g3
      simp only [query, hs, qSpec, g2, g3.1, g3.2.1]
      exact ⟨g1, by first | trivial | rfl, g3⟩
  | rotatePt =>
    obtain ⟨g1, g2, g3⟩ := size_coh o h
    cases hs : o.size with
    | mk o' n =>
      rw [hs] at g1 g2 g3; simp only at g1 g2 g3
      simp only [query, hs, qSpec, g2, g3.1, g3.2.1]
      exact ⟨g1, by first | trivial | rfl, g3⟩

theorem coh_fresh (o : CplxObj) : Coh o.fresh := by
  constructor <;> intro _ h <;> cases h

/-- a query answers exactly like the cache-free specification of the current rotation, changes neither the
    representation nor identity, and keeps the caches coherent -/
theorem query_coherent (o : CplxObj) (v : View) (h : Coherent o) :
    Coherent (o.query v).1 ∧ (o.query v).2 = o.spec.answer v ∧
    (o.query v).1.seq = o.seq ∧ (o.query v).1.sst = o.sst ∧ (o.query v).1.turns = o.turns ∧
    (o.query v).1.canon = o.canon ∧ (o.query v).1.name = o.name := by
  obtain ⟨g1, g2, g3⟩ := query_coh o v ((coherent_iff o).1 h)
  obtain ⟨f1, f2, f3⟩ := query_coh o.fresh v (coh_fresh o)
  refine ⟨(coherent_iff _).2 g1, ?_, g3⟩
  rw [g2]
  show _ = (CplxObj.query o.fresh v).2
  rw [f2]
  exact (qSpec_congr (CplxObj.sameRep_fresh o) v).symm

open CplxObj in
theorem setTurns_coh (o : CplxObj) (v : Int) (h : Coh o) :
    Coh (o.setTurns v).1 ∧ SameRep (o.setTurns v).1 (stPure o v) ∧
    (o.setTurns v).1.canon = o.canon ∧ (o.setTurns v).1.name = o.name := by
  rw [setTurns_eq]
  obtain ⟨g1, g2, g3⟩ := size_coh o h
  cases hs : o.size with
  | mk o1 tot =>
    rw [hs] at g1 g2 g3; simp only at g1 g2 g3
    obtain ⟨a1, a2, a3, a4, a5⟩ := g3
    have g3 : SameRep o1 o.fresh := ⟨a1, a2, a3, a4, a5⟩
    subst g2
    simp only [stPure, a1, a2, a3]
    split
    · exact ⟨g1, g3, a4, a5⟩
    · cases rotationsFrom (makeStrandTableList "+" o.seq).length o.seq o.sst with
      | error e => exact ⟨g1, g3, a4, a5⟩
      | ok rots =>
        simp only
        cases rots[wrap (-(o.turns : Int) + v) (makeStrandTableList "+" o.seq).length]? with
        | none => exact ⟨g1, g3, a4, a5⟩
        | some p =>
          simp only
          refine ⟨?_, ⟨rfl, rfl, rfl, a4, a5⟩, a4, a5⟩
          constructor <;> intro _ h <;> cases h

/-- assigning `turns` never changes identity, name or canonical form and leaves the caches coherent -/
theorem setTurns_coherent (o : CplxObj) (v : Int) (h : Coherent o) :
    Coherent (o.setTurns v).1 ∧ (o.setTurns v).1.canon = o.canon ∧ (o.setTurns v).1.name = o.name := by
  obtain ⟨g1, _, g3, g4⟩ := setTurns_coh o v ((coherent_iff o).1 h)
  exact ⟨(coherent_iff _).2 g1, g3, g4⟩

/-- the representation invariant: rotating the canonical form by `turns` strands gives the current
    sequence and structure (`n` = number of strands) -/
def Repr (n : Nat) (o : CplxObj) : Prop :=
  o.turns < n ∧ (makeStrandTableList "+" o.seq).length = n ∧ rotateN o.turns o.canon.1 o.canon.2 = .ok (o.seq, o.sst)

/-- rotating is periodic on this complex (supplied by C07's `rotate_period` for well-formed complexes) -/
def Periodic (n : Nat) (canon : CKey) : Prop :=
  0 < n ∧ rotateN n canon.1 canon.2 = .ok canon ∧
  ∀ k, k ≤ n → ∃ r, rotateN k canon.1 canon.2 = .ok r ∧ (makeStrandTableList "+" r.1).length = n

/-- **assigning `turns = v` moves the representation to the v-th rotation modulo the number of strands** -/
theorem setTurns_rotation (n : Nat) (o : CplxObj) (v : Int) (hc : Coherent o) (hr : Repr n o) (hp : Periodic n o.canon) :
    (o.setTurns v).2 = none ∧ Repr n (o.setTurns v).1 ∧ ((o.setTurns v).1.turns : Int) = v % (n : Int) := by
  obtain ⟨hr1, hr2, hr3⟩ := hr
  obtain ⟨hn, hper, hall⟩ := hp
  obtain ⟨rots, r, k1, k2, k3, k4, k5, k6⟩ :=
    ViewsRot.setter_selects n o.turns v o.canon o.seq o.sst hn hr3 hper hall
  rw [CplxObj.setTurns_eq]
  obtain ⟨g1, g2, g3⟩ := size_coh o ((coherent_iff o).1 hc)
  cases hs : o.size with
  | mk o1 tot =>
    rw [hs] at g1 g2 g3; simp only at g1 g2 g3
    obtain ⟨a1, a2, a3, a4, a5⟩ := g3
    rw [hr2] at g2
    subst g2
    have hn0 : ¬ tot = 0 := by omega
    simp only [hn0, if_false, a1, a2, a3, k1, k2]
    refine ⟨trivial, ⟨k5, k4, ?_⟩, k6⟩
    simp only [a4]
    exact k3

inductive COp
  | setTurns (v : Int)
  | query (v : View)

/-- run a sequence of assignments and queries, collecting the answers -/
def run (o : CplxObj) : List COp → CplxObj × List Ans
  | [] => (o, [])
  | .setTurns v :: rest => run (o.setTurns v).1 rest
  | .query q :: rest => let r := o.query q; let rr := run r.1 rest; (rr.1, r.2 :: rr.2)

/-- the same sequence on the specification: no caches at all -/
def runSpec (s : CplxObj) : List COp → List Ans
  | [] => []
  | .setTurns v :: rest =>
    let s' := (CplxObj.setTurns { s with strandTable := none, pairTable := none, loopIndex := none, extDomains := none } v).1
    runSpec s' rest
  | .query q :: rest => s.spec.answer q :: runSpec s rest

open CplxObj in
theorem runSpec_congr {o o' : CplxObj} (h : SameRep o o') (ops : List COp) : runSpec o ops = runSpec o' ops := by
  induction ops generalizing o o' with
  | nil => rfl
  | cons op rest ih =>
    cases op with
    | setTurns v =>
      simp only [runSpec, clear_eq_fresh, fresh_congr h]
    | query q =>
      have hs : o.spec = o'.spec := by
        obtain ⟨a1, a2, a3, a4, a5⟩ := h
        simp only [CplxObj.spec, a1, a2, a3, a4, a5]
      simp only [runSpec, hs, ih h]

/-- **after any sequence of assignments interleaved with queries, every view answers like the cache-free
    specification of the current rotation** -/
theorem views_refine_spec (o : CplxObj) (ops : List COp) (h : Coherent o) :
    (run o ops).2 = runSpec o ops := by
  induction ops generalizing o with
  | nil => rfl
  | cons op rest ih =>
    cases op with
    | setTurns v =>
      simp only [run, runSpec]
      obtain ⟨g1, g2, _⟩ := setTurns_coh o v ((coherent_iff o).1 h)
      obtain ⟨_, f2, _⟩ := setTurns_coh o.fresh v (coh_fresh o)
      rw [ih _ ((coherent_iff _).2 g1)]
      apply runSpec_congr
      rw [CplxObj.clear_eq_fresh]
      rw [CplxObj.stPure_congr (CplxObj.sameRep_fresh o) v] at f2
      exact g2.trans f2.symm
    | query q =>
      simp only [run, runSpec]
      obtain ⟨g1, g2, g3⟩ := query_coherent o q h
      rw [g2, ih _ g1]
      congr 1
      exact runSpec_congr g3 rest

/-- the defective variant of the setter (tables of the previous rotation are kept) -/
def setTurnsStale (o : CplxObj) (v : Int) : CplxObj :=
  let r := (o.setTurns v).1
  { r with strandTable := o.strandTable, pairTable := o.pairTable, loopIndex := o.loopIndex, extDomains := o.extDomains }

/-- negative witness: with the stale setter the history `pair_table; turns = 1; pair_table` answers the old table -/
theorem stale_setter_counterexample :
    let o : CplxObj := { seq := ["a", "+", "b", "b"], sst := ['(', '+', ')', '.'], turns := 0,
                          canon := (["a", "+", "b", "b"], ['(', '+', ')', '.']), name := "X" }
    let o1 := (o.query .pairTable).1
    ((setTurnsStale o1 1).query .pairTable).2 ≠ (((o1.setTurns 1).1).query .pairTable).2 := by decide

end Dsd.C03
