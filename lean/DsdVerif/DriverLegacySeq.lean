/-
Line-protocol ops that EXECUTE the legacy `SequenceConstraint` as translated from the source (Gen/PyLegacySeq.lean).  The state wraps
`DriverLegacyReg.LegacyRegDState`; every other line goes to `DriverLegacyInit.stepLegacyInit`.

    ls.new <h> <sequence> <molecule>     `SequenceConstraint(sequence, molecule)`      -> ok | err …
    ls.q   <h> <view>                    constraint | complement | wc_complement | reverse_complement | reverse_wc_complement | len
    ls.add <h> <constraint>              `o.add_constraint(constraint)`               -> ok | err …
-/
import DsdVerif.Gen.PyLegacySeq
import DsdVerif.DriverLegacyInit

namespace Dsd.DriverLegacySeq
open Dsd Gen

structure LegacySeqDState where
  lr : DriverLegacyReg.LegacyRegDState := {}
  seqs : List (Nat × SequenceConstraint.Self) := []

def put (d : LegacySeqDState) (id : Nat) (s : SequenceConstraint.Self) : LegacySeqDState :=
  { d with seqs := (id, s) :: d.seqs.filter (fun p => p.1 != id) }

def view (name : String) : Option (SequenceConstraint.M String) :=
  match name with
  | "constraint" => some (do let r ← py_SequenceConstraint_constraint; pure (String.ofList r))
  | "complement" => some (do let r ← py_SequenceConstraint_complement; pure (String.ofList r))
  | "wc_complement" => some (do let r ← py_SequenceConstraint_wc_complement; pure (String.ofList r))
  | "reverse_complement" => some (do let r ← py_SequenceConstraint_reverse_complement; pure (String.ofList r))
  | "reverse_wc_complement" => some (do let r ← py_SequenceConstraint_reverse_wc_complement; pure (String.ofList r))
  | "len" => some (do let r ← py_SequenceConstraint_len; pure (toString r))
  | _ => none

def stepLegacySeq (d : LegacySeqDState) (line : String) : Option (LegacySeqDState × String) :=
  match line.splitOn "\t" with
  | ["ls.new", h, sq, mol] =>
    match h.toNat? with
    | some id =>
      let (r, s') := (py_SequenceConstraint_init sq.toList mol).exec { ToU := [], _molecule := "", _sequence := [] }
      match r with
      | .ok _ => some (put d id s', "ok")
      | .error e => some (d, DriverLegacy.showErr e)
    | none => some (d, "bad-op")
  | ["ls.q", h, v] =>
    match h.toNat?.bind (fun id => (d.seqs.lookup id).map (fun s => (id, s))), view v with
    | some (id, s), some m =>
      let (r, s') := m.exec s
      some (put d id s', match r with | .ok a => "'" ++ a ++ "'" | .error e => DriverLegacy.showErr e)
    | _, _ => some (d, "bad-op")
  | ["ls.add", h, con] =>
    match h.toNat?.bind (fun id => (d.seqs.lookup id).map (fun s => (id, s))) with
    | some (id, s) =>
      let (r, s') := (py_SequenceConstraint_add_constraint (con.toList.map (fun c => [c]))).exec s
      some (put d id s', match r with | .ok _ => "ok" | .error e => DriverLegacy.showErr e)
    | none => some (d, "bad-op")
  | _ =>
    match DriverLegacyInit.stepLegacyInit d.lr line with
    | some (lr', out) => some ({ d with lr := lr' }, out)
    | none => none

end Dsd.DriverLegacySeq
