/- private driver loop for the op of DsdVerif/DriverSingleton.lean alone (used until `stepSingleton` is wired into Driver.lean) -/
import DsdVerif.DriverSingleton

partial def loop (h : IO.FS.Stream) (out : IO.FS.Stream) : IO Unit := do
  let line ← h.getLine
  if line.isEmpty then return ()
  let l := if line.back == '\n' then String.ofList line.toList.dropLast else line
  out.putStrLn ((Dsd.DriverSingleton.stepSingleton l).getD "bad-op")
  loop h out

def main : IO Unit := do
  loop (← IO.getStdin) (← IO.getStdout)
