import DsdVerif.Driver

partial def loop (h : IO.FS.Stream) (out : IO.FS.Stream) (w : Dsd.Driver.DState) : IO Unit := do
  let line ← h.getLine
  if line.isEmpty then return ()
  let l := if line.back == '\n' then String.ofList line.toList.dropLast else line
  let (w', r) := Dsd.Driver.stepD w l
  out.putStrLn r
  loop h out w'

def main : IO Unit := do
  let out ← IO.getStdout
  loop (← IO.getStdin) out {}
