import DsdVerif.Driver

partial def loop (h : IO.FS.Stream) (out : IO.FS.Stream) : IO Unit := do
  let line ← h.getLine
  if line.isEmpty then return ()
  let l := if line.back == '\n' then String.ofList line.toList.dropLast else line
  out.putStrLn (Dsd.Driver.step l)
  loop h out

def main : IO Unit := do
  let out ← IO.getStdout
  loop (← IO.getStdin) out
