import DsdVerif.DriverReaderFns

/-! the private loop used before `stepReaderFns` is wired into Driver.lean: one request line, one response line -/

partial def loopRF (h : IO.FS.Stream) (out : IO.FS.Stream) : IO Unit := do
  let line ← h.getLine
  if line.isEmpty then return ()
  let l := if line.back == '\n' then String.ofList line.toList.dropLast else line
  out.putStrLn ((Dsd.DriverReaderFns.stepReaderFns l).getD "bad-op")
  loopRF h out

def main : IO Unit := do
  let out ← IO.getStdout
  loopRF (← IO.getStdin) out
