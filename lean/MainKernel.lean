/- private driver loop for the ops of DsdVerif/DriverKernel.lean alone (used until `stepKernel` is wired into Driver.lean) -/
import DsdVerif.DriverKernel

partial def loop (h : IO.FS.Stream) (out : IO.FS.Stream) : IO Unit := do
  let line ← h.getLine
  if line.isEmpty then return ()
  let l := if line.back == '\n' then String.ofList line.toList.dropLast else line
  out.putStrLn ((Dsd.DriverKernel.stepKernel l).getD "bad-op")
  loop h out

def main : IO Unit := do
  loop (← IO.getStdin) (← IO.getStdout)
