import DsdVerif.DriverDunders
/-! Private stand-alone driver for the op of DriverDunders.lean (testing before it is wired into Driver.lean / Main.lean). -/

partial def loopDunders (h : IO.FS.Stream) (out : IO.FS.Stream) : IO Unit := do
  let line ← h.getLine
  if line.isEmpty then return ()
  let l := if line.back == '\n' then String.ofList line.toList.dropLast else line
  out.putStrLn ((Dsd.DriverDunders.stepDunders l).getD "bad-op")
  loopDunders h out

def main : IO Unit := do
  loopDunders (← IO.getStdin) (← IO.getStdout)
