import DsdVerif.DriverReadLine

/-! the private loop used before `stepReadLine` is wired into Driver.lean -/

partial def loopRL (h : IO.FS.Stream) (out : IO.FS.Stream) : IO Unit := do
  let line ← h.getLine
  if line.isEmpty then return ()
  let l := if line.back == '\n' then String.ofList line.toList.dropLast else line
  out.putStrLn ((Dsd.DriverReadLine.stepReadLine l).getD "bad-op")
  loopRL h out

def main : IO Unit := do
  let out ← IO.getStdout
  loopRL (← IO.getStdin) out
