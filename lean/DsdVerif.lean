import DsdVerif.Model.Iupac
import DsdVerif.Model.Units
