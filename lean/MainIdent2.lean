import DsdVerif.DriverIdent2
/-! Private stand-alone driver for the ops of DriverIdent2.lean (testing before they are wired into Driver.lean / Main.lean). -/

partial def loopIdent2 (h : IO.FS.Stream) (out : IO.FS.Stream) : IO Unit := do
  let line ← h.getLine
  if line.isEmpty then return ()
  let l := if line.back == '\n' then String.ofList line.toList.dropLast else line
  out.putStrLn ((Dsd.DriverIdent2.stepIdent2 l).getD "bad-op")
  loopIdent2 h out

def main : IO Unit := do
  loopIdent2 (← IO.getStdin) (← IO.getStdout)
