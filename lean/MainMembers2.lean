import DsdVerif.DriverMembers2
/-! private driver loop for `pym2.init` until `stepMembers2` is wired into DsdVerif/Driver.lean (see INTEGRATION_Members2.md) -/

partial def loop (h : IO.FS.Stream) (out : IO.FS.Stream) : IO Unit := do
  let line ← h.getLine
  if line.isEmpty then return ()
  let l := if line.back == '\n' then String.ofList line.toList.dropLast else line
  out.putStrLn ((Dsd.DriverMembers2.stepMembers2 l).getD "bad-op")
  loop h out

def main : IO Unit := do
  loop (← IO.getStdin) (← IO.getStdout)
