import DsdVerif.DriverComplexS3
/-! private driver loop for `pyc3.init` until `stepComplexS3` is wired into DsdVerif/Driver.lean (see INTEGRATION_ComplexS3.md) -/

partial def loop (h : IO.FS.Stream) (out : IO.FS.Stream) : IO Unit := do
  let line ← h.getLine
  if line.isEmpty then return ()
  let l := if line.back == '\n' then String.ofList line.toList.dropLast else line
  out.putStrLn ((Dsd.DriverComplexS3.stepComplexS3 l).getD "bad-op")
  loop h out

def main : IO Unit := do
  loop (← IO.getStdin) (← IO.getStdout)
