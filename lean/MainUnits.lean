import DsdVerif.DriverUnits
/-! private driver loop for the `pyunits.*` ops until `stepUnits` is wired into DsdVerif/Driver.lean (see INTEGRATION_Units.md) -/

partial def loop (h : IO.FS.Stream) (out : IO.FS.Stream) : IO Unit := do
  let line ← h.getLine
  if line.isEmpty then return ()
  let l := if line.back == '\n' then String.ofList line.toList.dropLast else line
  out.putStrLn ((Dsd.DriverUnits.stepUnits l).getD "bad-op")
  loop h out

def main : IO Unit := do
  loop (← IO.getStdin) (← IO.getStdout)
