import DsdVerif.DriverReadPil

/-! the private loop used before `stepReadPil` is wired into Driver.lean -/

partial def loopRP (h : IO.FS.Stream) (out : IO.FS.Stream) : IO Unit := do
  let line ← h.getLine
  if line.isEmpty then return ()
  let l := if line.back == '\n' then String.ofList line.toList.dropLast else line
  out.putStrLn ((Dsd.DriverReadPil.stepReadPil l).getD "bad-op")
  loopRP h out

def main : IO Unit := do
  let out ← IO.getStdout
  loopRP (← IO.getStdin) out
