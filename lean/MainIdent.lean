import DsdVerif.DriverIdent
/-! Private stand-alone driver for the ops of DriverIdent.lean (testing before they are wired into Driver.lean / Main.lean). -/

partial def loopIdent (h : IO.FS.Stream) (out : IO.FS.Stream) : IO Unit := do
  let line ← h.getLine
  if line.isEmpty then return ()
  let l := if line.back == '\n' then String.ofList line.toList.dropLast else line
  out.putStrLn ((Dsd.DriverIdent.stepIdent l).getD "bad-op")
  loopIdent h out

def main : IO Unit := do
  loopIdent (← IO.getStdin) (← IO.getStdout)
