/- A private driver around `stepLegacy` alone (for testing harness/props/pylegacy_stream.py before the ops are wired into
   DsdVerif/Driver.lean, see INTEGRATION_Legacy.md): same line protocol as Main.lean. -/
import DsdVerif.DriverLegacy

partial def loop (h : IO.FS.Stream) (out : IO.FS.Stream) (w : Dsd.DriverLegacy.LegacyDState) : IO Unit := do
  let line ← h.getLine
  if line.isEmpty then return ()
  let l := if line.back == '\n' then String.ofList line.toList.dropLast else line
  match Dsd.DriverLegacy.stepLegacy w l with
  | some (w', r) => out.putStrLn r; loop h out w'
  | none => out.putStrLn "bad-op"; loop h out w

def main : IO Unit := do
  let out ← IO.getStdout
  loop (← IO.getStdin) out {}
