/- private driver loop for the ops of DsdVerif/DriverDomain.lean alone (used until `stepDomain` is wired into Driver.lean) -/
import DsdVerif.DriverDomain

partial def loop (h : IO.FS.Stream) (out : IO.FS.Stream) (d : Dsd.DriverDomain.DomainDState) : IO Unit := do
  let line ← h.getLine
  if line.isEmpty then return ()
  let l := if line.back == '\n' then String.ofList line.toList.dropLast else line
  match Dsd.DriverDomain.stepDomain d l with
  | some (d', r) => out.putStrLn r; loop h out d'
  | none => out.putStrLn "bad-op"; loop h out d

def main : IO Unit := do
  loop (← IO.getStdin) (← IO.getStdout) {}
